fn main(){}
