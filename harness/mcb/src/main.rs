//! `mcb c20 ...` — C20: local storage backends are exact maps and publish files atomically.
//! SEQ on the file system against the in-memory map as reference model, for LocalBackend,
//! OpenDAL(fs) and OpenDAL(memory); crash image taken at LocalBackend's pre-publish hook.

use std::{
    collections::{BTreeMap, BTreeSet, HashSet, VecDeque},
    fs,
    path::{Path, PathBuf},
    sync::{Arc, Mutex},
};

use bytes::Bytes;
use rustic_backend::{LocalBackend, OpenDALBackend};
use rustic_core::{BytesList, FileType, Id, WriteBackend};
use serde::{Deserialize, Serialize};
use serde_json::{Value, json};
use vkit::{
    backend::{Store, ft_name},
    fsx::sandbox,
    report::{Args, Report},
};

#[derive(Clone, Copy, Debug, PartialEq, Eq, Serialize, Deserialize, Hash, PartialOrd, Ord)]
enum Kind {
    Local,
    OpendalFs,
    OpendalMemory,
}

fn make_backend(kind: Kind, dir: &Path) -> Arc<dyn WriteBackend> {
    match kind {
        Kind::Local => Arc::new(LocalBackend::new(dir.to_str().unwrap(), std::iter::empty()).expect("local backend")),
        Kind::OpendalFs => {
            let mut o = BTreeMap::new();
            _ = o.insert("root".to_string(), dir.to_str().unwrap().to_string());
            // no retries: an expected failure (reading an absent file) must not be waited for
            _ = o.insert("retry".to_string(), "false".to_string());
            Arc::new(OpenDALBackend::new("fs", o).expect("opendal fs"))
        }
        Kind::OpendalMemory => {
            let mut o = BTreeMap::new();
            _ = o.insert("retry".to_string(), "false".to_string());
            Arc::new(OpenDALBackend::new("memory", o).expect("opendal memory"))
        }
    }
}

const TYPES: [FileType; 5] = [FileType::Config, FileType::Key, FileType::Snapshot, FileType::Index, FileType::Pack];

fn ids() -> [Id; 3] {
    [
        // i1 and i2 share the first byte (same data/ab directory), i3 does not
        format!("ab{}", "11".repeat(31)).parse().unwrap(),
        format!("ab{}", "22".repeat(31)).parse().unwrap(),
        format!("cd{}", "33".repeat(31)).parse().unwrap(),
    ]
}

/// the contents are built once and shared (`Bytes` clones are reference counts): the explorer keeps
/// one model store per frontier state
fn content(i: usize) -> Bytes {
    static CACHE: std::sync::OnceLock<Vec<Bytes>> = std::sync::OnceLock::new();
    CACHE.get_or_init(|| (0..4).map(make_content).collect())[i.min(3)].clone()
}

fn make_content(i: usize) -> Bytes {
    match i {
        0 => Bytes::new(),
        2 => Bytes::from_static(b"x"),
        1 => Bytes::from((0..4097u32).map(|x| (x * 7 % 251) as u8).collect::<Vec<u8>>()),
        _ => Bytes::from((0..3 * 1024 * 1024u32).map(|x| (x.wrapping_mul(2654435761) >> 24) as u8).collect::<Vec<u8>>()),
    }
}

const N_SPLIT: usize = 8;

/// the content as a `BytesList`: one part, or several parts incl. empty ones at every position
fn parts(c: &Bytes, pattern: usize) -> BytesList {
    let n = c.len();
    let (a, b) = (c.slice(..n / 2), c.slice(n / 2..));
    let e = Bytes::new;
    let list: Vec<Bytes> = match pattern {
        0 => vec![c.clone()],
        1 => vec![a, b],
        2 => vec![a, e(), b],
        3 => vec![e(), e(), c.clone()],
        4 => vec![a, b, e()],
        5 => vec![a, e(), e(), b],
        6 => vec![c.slice(..n.min(1)), e(), c.slice(n.min(1)..)],
        _ => c.chunks(1500).map(|x| c.slice_ref(x)).chain([e()]).flat_map(|x| [x, e()]).collect(),
    };
    let mut l = BytesList::default();
    for x in list {
        l.add(x);
    }
    l
}

#[derive(Clone, Debug, Serialize, Deserialize, PartialEq, Eq, Hash)]
enum Op {
    Write {
        tpe: usize,
        id: usize,
        content: usize,
        /// how the content is handed over as a list of parts (see `parts`); None = derived from the
        /// other fields, so that the search meets all patterns without a larger alphabet
        #[serde(default)]
        split: Option<usize>,
    },
    Remove { tpe: usize, id: usize },
    /// environment (directory backend): something that is not a regular file occupies the name
    /// of the temporary file of (type, id) - the next write of that id cannot create it
    BlockTmp { tpe: usize, id: usize },
}

#[derive(Clone, Debug, Serialize, Deserialize, PartialEq, Eq, Hash)]
enum Stray {
    NonHex,
    Hex63,
    Hex65,
    UpperHex,
    TmpFile,
    DirNamedLikeId,
    ForeignDataDir,
    /// foreign directories next to the type directories whose names start with a type directory's
    /// name (`index.bak`, `snapshots-old`, `keys2`, `database`) and hold id-named files
    PrefixSiblings,
}

fn plant_strays(dir: &Path, strays: &[Stray]) {
    let i = ids();
    for s in strays {
        for sub in ["snapshots", "index", "keys", "data/ab"] {
            let d = dir.join(sub);
            _ = fs::create_dir_all(&d);
            match s {
                Stray::NonHex => _ = fs::write(d.join("README.txt"), b"hello"),
                Stray::Hex63 => _ = fs::write(d.join("a".repeat(63)), b"short name"),
                Stray::Hex65 => _ = fs::write(d.join("a".repeat(65)), b"long name"),
                Stray::UpperHex => _ = fs::write(d.join("AB".repeat(32)), b"upper case name"),
                Stray::TmpFile => _ = fs::write(d.join(format!("{}-tmp-", i[0].to_hex().as_str())), b"partial"),
                // a directory whose name is a valid id (one that no operation uses)
                Stray::DirNamedLikeId => _ = fs::create_dir_all(d.join(format!("ef{}", "44".repeat(31)))),
                Stray::ForeignDataDir | Stray::PrefixSiblings => {}
            }
        }
        if *s == Stray::PrefixSiblings {
            for (d, k) in [("index.bak", 0usize), ("snapshots-old", 1), ("keys2", 2), ("database", 0), ("database/ab", 1)] {
                _ = fs::create_dir_all(dir.join(d));
                _ = fs::write(dir.join(d).join(i[k].to_hex().as_str()), b"foreign file with an id-like name in a sibling directory");
            }
        }
        if *s == Stray::ForeignDataDir {
            _ = fs::create_dir_all(dir.join("data/zz"));
            _ = fs::write(dir.join("data/zz/notes"), b"foreign");
            _ = fs::create_dir_all(dir.join("unrelated"));
            _ = fs::write(dir.join("unrelated").join(i[1].to_hex().as_str()), b"foreign id-named file elsewhere");
        }
    }
}

fn apply_model(m: &mut Store, op: &Op) -> bool {
    let i = ids();
    match op {
        Op::Write { tpe, id, content: c, .. } => {
            m.put(TYPES[*tpe], &i[*id], content(*c));
            true
        }
        Op::Remove { tpe, id } => m.del(TYPES[*tpe], &i[*id]),
        Op::BlockTmp { .. } => true,
    }
}

/// path of (type, id) in the directory backend's layout
fn local_path(dir: &Path, tpe: FileType, id: &Id) -> PathBuf {
    let hex = id.to_hex();
    match tpe {
        FileType::Config => dir.join("config"),
        FileType::Pack => dir.join("data").join(&hex.as_str()[..2]).join(hex.as_str()),
        FileType::Key => dir.join("keys").join(hex.as_str()),
        FileType::Snapshot => dir.join("snapshots").join(hex.as_str()),
        FileType::Index => dir.join("index").join(hex.as_str()),
    }
}

fn apply_real(be: &Arc<dyn WriteBackend>, op: &Op) -> Result<(), String> {
    let i = ids();
    match op {
        Op::Write { tpe, id, content: c, split } => {
            let pattern = split.unwrap_or((tpe * 3 + id + c) % N_SPLIT);
            be.write_bytes(TYPES[*tpe], &i[*id], false, parts(&content(*c), pattern)).map_err(|e| e.display_log())
        }
        Op::Remove { tpe, id } => be.remove(TYPES[*tpe], &i[*id], false).map_err(|e| e.display_log()),
        Op::BlockTmp { .. } => Ok(()),
    }
}

/// compare every observation of the backend with the model
fn observe(kind: Kind, be: &Arc<dyn WriteBackend>, m: &Store, rep: &mut Report) -> Result<(), (String, String)> {
    let k = format!("{kind:?}");
    let i = ids();
    for t in TYPES {
        let mut want: Vec<(Id, u32)> = m.list(t);
        want.sort();
        // config has the fixed id
        let mut got = be.list_with_size(t).map_err(|e| (format!("C20/{k}/list_with_size/error"), e.display_log()))?;
        got.sort();
        rep.inc("observations");
        if got != want {
            return Err((format!("C20/{k}/list_with_size/{}", ft_name(t)), format!("listing with sizes {got:?}, model {want:?}")));
        }
        let mut got_ids = be.list(t).map_err(|e| (format!("C20/{k}/list/error"), e.display_log()))?;
        got_ids.sort();
        let want_ids: Vec<Id> = want.iter().map(|(i, _)| *i).collect();
        rep.inc("observations");
        if got_ids != want_ids {
            return Err((format!("C20/{k}/list/{}", ft_name(t)), format!("listing {got_ids:?}, model {want_ids:?}")));
        }
        for id in &i {
            rep.inc("observations");
            let model = m.get(t, id);
            match (be.read_full(t, id), model) {
                (Ok(d), Some(w)) if d == *w => {}
                (Err(_), None) => {}
                (Ok(d), Some(w)) => return Err((format!("C20/{k}/read_full/{}", ft_name(t)), format!("read {} bytes, model has {} bytes", d.len(), w.len()))),
                (Ok(d), None) => return Err((format!("C20/{k}/read_full/absent/{}", ft_name(t)), format!("read {} bytes of a file the model does not have", d.len()))),
                (Err(e), Some(_)) => return Err((format!("C20/{k}/read_full/error/{}", ft_name(t)), e.display_log())),
            }
            if let Some(w) = model {
                let n = w.len();
                let mut grid: BTreeSet<usize> = [0usize, 1, n / 2, n.saturating_sub(1), n].into_iter().filter(|x| *x <= n).collect();
                if n > 4096 {
                    _ = grid.insert(4096);
                    _ = grid.insert(4095);
                }
                for off in &grid {
                    for len in &grid {
                        if off + len > n {
                            continue;
                        }
                        rep.inc("observations");
                        match be.read_partial(t, id, false, *off as u32, *len as u32) {
                            Ok(d) if d[..] == w[*off..off + len] => {}
                            Ok(d) => return Err((format!("C20/{k}/read_partial/{}", ft_name(t)), format!("read_partial({off},{len}) returned {} bytes differing from the model", d.len()))),
                            Err(e) => return Err((format!("C20/{k}/read_partial/error/{}", ft_name(t)), format!("read_partial({off},{len}) of a {n} byte file: {}", e.display_log()))),
                        }
                    }
                }
            }
        }
    }
    Ok(())
}

#[derive(Clone, Debug, Serialize, Deserialize)]
struct Case {
    kind: Kind,
    strays: Vec<Stray>,
    history: Vec<Op>,
}

/// crash images taken at the pre-publish hook: (path of the copy, model before the write, target)
type Crash = Arc<Mutex<Vec<PathBuf>>>;

/// copy all files (directories are only created when they hold something)
fn copy_dir(src: &Path, dst: &Path) {
    if let Ok(rd) = fs::read_dir(src) {
        for e in rd.flatten() {
            let p = e.path();
            let d = dst.join(e.file_name());
            if p.is_dir() {
                copy_dir(&p, &d);
            } else {
                _ = fs::create_dir_all(dst);
                _ = fs::copy(&p, &d);
            }
        }
    }
}

/// run a history from scratch; after every step compare with the model
fn run_case(c: &Case, sb: &Path, rep: &mut Report, observe_every_step: bool) -> Result<Store, (String, String)> {
    *CURRENT.lock().unwrap() = Some((std::time::Instant::now(), format!("{:?}", c.kind), serde_json::to_string(c).unwrap_or_default()));
    // a backend operation that panics is a violation of this history, not a harness failure
    let r = std::panic::catch_unwind(std::panic::AssertUnwindSafe(|| run_case_inner(c, sb, rep, observe_every_step)));
    rustic_backend::verif::set_pre_publish(None);
    *CURRENT.lock().unwrap() = None;
    match r {
        Ok(r) => r,
        Err(e) => {
            let m = e.downcast_ref::<String>().cloned().or_else(|| e.downcast_ref::<&str>().map(|s| (*s).to_string())).unwrap_or_default();
            Err((format!("C20/{:?}/panic", c.kind), format!("a backend operation of this history panicked: {m}")))
        }
    }
}

fn run_case_inner(c: &Case, sb: &Path, rep: &mut Report, observe_every_step: bool) -> Result<Store, (String, String)> {
    let k = format!("{:?}", c.kind);
    let dir = sb.join("repo");
    _ = fs::remove_dir_all(&dir);
    fs::create_dir_all(&dir).unwrap();
    let be = make_backend(c.kind, &dir);
    // `create` (260 directories for the local backend) is exercised by the single-stray cases
    // only; writes create what they need
    if c.strays.len() == 1 {
        be.create().map_err(|e| (format!("C20/{k}/create"), e.display_log()))?;
    }
    if c.kind != Kind::OpendalMemory {
        plant_strays(&dir, &c.strays);
    }
    let mut m = Store::default();
    let mut blocked: std::collections::BTreeSet<(usize, usize)> = std::collections::BTreeSet::new();
    let crash_dir = sb.join("crash");
    for (n, op) in c.history.iter().enumerate() {
        let before = m.clone();
        let model_ok = apply_model(&mut m, op);
        // crash image at the publish point of LocalBackend writes
        let images: Crash = Arc::new(Mutex::new(Vec::new()));
        if c.kind == Kind::Local && matches!(op, Op::Write { .. }) {
            let (src, dst, im) = (dir.clone(), crash_dir.clone(), images.clone());
            rustic_backend::verif::set_pre_publish(Some(Arc::new(move |_tmp, _fin| {
                _ = fs::remove_dir_all(&dst);
                copy_dir(&src, &dst);
                im.lock().unwrap().push(dst.clone());
            })));
        }
        if let Op::BlockTmp { tpe, id } = op {
            let f = local_path(&dir, TYPES[*tpe], &ids()[*id]);
            let mut name = f.file_name().unwrap().to_os_string();
            name.push("-tmp-");
            let tmp = f.with_file_name(name);
            _ = fs::create_dir_all(tmp.join("occupied"));
            _ = blocked.insert((*tpe, *id));
        }
        let real = apply_real(&be, op);
        rustic_backend::verif::set_pre_publish(None);
        rep.inc("transitions");
        match (&real, model_ok) {
            // a write whose temporary file cannot be created may fail - and then changes nothing
            (Err(_), true) if matches!(op, Op::Write { tpe, id, .. } if blocked.contains(&(*tpe, *id))) => {
                rep.inc("blocked_write_errors");
                m = before.clone();
            }
            (Ok(()), true) => {}
            (Err(_), false) => {}
            // removing an absent file: the statement does not say whether this is an error
            (Ok(()), false) => rep.inc("remove_absent_ok"),
            (Err(e), true) => return Err((format!("C20/{k}/op-error"), format!("step {n} {op:?}: {e}"))),
        }
        if observe_every_step || n + 1 == c.history.len() {
            observe(c.kind, &be, &m, rep).map_err(|(s, msg)| (s, format!("after step {n} {op:?}: {msg}")))?;
        }
        // the crash image shows the state before the write: no partial file is listed, the target
        // reads as before (or is absent)
        for img in images.lock().unwrap().iter() {
            rep.inc("crash_images");
            let be2 = make_backend(Kind::Local, img);
            observe(Kind::Local, &be2, &before, rep).map_err(|(s, msg)| (format!("{s}[crash-before-publish]"), format!("crash image before publishing step {n} {op:?}: {msg}")))?;
        }
    }
    Ok(m)
}

fn actions(types: &[usize], ncontent: usize, m: &Store) -> Vec<Op> {
    let i = ids();
    let mut v = Vec::new();
    for &t in types {
        let nid = if TYPES[t] == FileType::Config { 1 } else { 3 };
        for id in 0..nid {
            for c in 0..ncontent {
                v.push(Op::Write { tpe: t, id, content: c, split: None });
            }
            // removing an absent file is explored once per type (id 0) only
            if m.get(TYPES[t], &i[id]).is_some() || id == 0 {
                v.push(Op::Remove { tpe: t, id });
            }
        }
    }
    v
}

fn canon(m: &Store) -> String {
    let mut v: Vec<String> = m.files.iter().map(|(t, i, d)| format!("{}:{}:{}", ft_name(*t), &i.to_hex().as_str()[..4], d.len())).collect();
    v.sort();
    v.join(",")
}

/// the case being executed and when it started (for the watchdog)
static CURRENT: Mutex<Option<(std::time::Instant, String, String)>> = Mutex::new(None);

/// A backend call which never returns cannot be interrupted from inside the process: a watchdog
/// thread reports the running case as a violation and ends the worker.
fn start_watchdog(args: &Args) {
    let args = args.clone();
    _ = std::thread::spawn(move || {
        loop {
            std::thread::sleep(std::time::Duration::from_millis(500));
            let cur = CURRENT.lock().unwrap().clone();
            if let Some((t0, kind, case)) = cur {
                if t0.elapsed().as_secs() >= 120 {
                    let mut rep = Report::new(&args);
                    rep.property = "C20".into();
                    rep.inc("executions");
                    rep.violation(
                        format!("C20/{kind}/operation-does-not-terminate"),
                        "a backend operation of this history did not return within 120 s (the worker was ended by its watchdog)".to_string(),
                        serde_json::from_str(&case).unwrap_or(Value::Null),
                    );
                    rep.cap("worker ended by the watchdog: the remaining cases of this shard were not explored".to_string());
                    rep.finish(&args);
                    std::process::exit(0);
                }
            }
        }
    });
}

fn main() {
    std::panic::set_hook(Box::new(|_| {}));
    let args = Args::parse();
    let mut rep = Report::new(&args);
    rep.property = "C20".into();
    start_watchdog(&args);
    let sb = sandbox(&format!("c20-{}", args.shard));
    run(&args, &mut rep, &sb);
    _ = fs::remove_dir_all(&sb);
    rep.finish(&args);
}

fn run(args: &Args, rep: &mut Report, sb: &Path) {
    if let Some(p) = &args.replay {
        let v: Value = serde_json::from_str(&fs::read_to_string(p).unwrap()).unwrap();
        let c: Case = serde_json::from_value(v["case"].clone()).unwrap();
        rep.inc("executions");
        if let Err((sig, msg)) = run_case(&c, sb, rep, true) {
            rep.violation(sig, msg, v["case"].clone());
        }
        return;
    }
    let quick = args.quick();
    let depth = if quick { 3 } else { 4 };
    let ncontent = if quick { 2 } else { 4 };
    rep.set_meta("bounds", json!(format!("BFS depth {depth} over write/remove on types {{config, snapshot, pack}} x 3 ids (two sharing a data/xx directory) x {ncontent} contents (0 B, 4097 B{}), depth 2 over all five types; after every step every list, list_with_size, read_full of every id and read_partial over the grid {{0,1,mid,len-1,len,4095,4096}}^2 in range is compared with the map model; for LocalBackend additionally with each single stray kind and all strays together; crash image at the pre-publish hook of every LocalBackend write; contents are handed over as lists of parts in 8 patterns (one part, two, empty parts first / in the middle / last, 1500-byte pieces), every pattern x 4 contents x 3 backends explicitly", if quick { "" } else { ", 1 B, 3 MiB" })));
    let all_strays = vec![Stray::NonHex, Stray::Hex63, Stray::Hex65, Stray::TmpFile, Stray::DirNamedLikeId, Stray::ForeignDataDir, Stray::PrefixSiblings];
    let mut configs: Vec<(Kind, Vec<Stray>)> = vec![(Kind::Local, vec![]), (Kind::OpendalFs, vec![]), (Kind::OpendalMemory, vec![]), (Kind::Local, all_strays.clone()), (Kind::OpendalFs, all_strays.clone())];
    let mut first_level = 0usize;
    for (kind, strays) in configs.drain(..) {
        // BFS over model states; every transition re-runs its history on a fresh backend
        for (types, d) in [(vec![0usize, 2, 4], depth), (vec![0usize, 1, 2, 3, 4], 2usize)] {
            let mut seen: HashSet<String> = HashSet::new();
            let mut frontier: VecDeque<(Vec<Op>, Store)> = VecDeque::new();
            frontier.push_back((vec![], Store::default()));
            _ = seen.insert(canon(&Store::default()));
            while let Some((hist, m)) = frontier.pop_front() {
                if hist.len() >= d {
                    continue;
                }
                if rep.over_budget() {
                    return;
                }
                for op in actions(&types, ncontent, &m) {
                    if hist.is_empty() {
                        first_level += 1;
                        if first_level % args.nshards != args.shard {
                            continue;
                        }
                    }
                    let mut h2 = hist.clone();
                    h2.push(op.clone());
                    let case = Case { kind, strays: strays.clone(), history: h2.clone() };
                    rep.inc("executions");
                    rep.inc(&format!("executions:{kind:?}{}", if strays.is_empty() { "" } else { "+strays" }));
                    // the prefix was observed when it was explored: observe the last step only
                    match run_case(&case, sb, rep, false) {
                        Ok(m2) => {
                            let c = canon(&m2);
                            _ = rep.distinct("state", &(format!("{kind:?}"), strays.len(), &c));
                            if seen.insert(c) {
                                frontier.push_back((h2, m2));
                            }
                            if rep.samples.len() < 3 && case.history.len() == 3 {
                                rep.sample(serde_json::to_value(&case).unwrap());
                            }
                        }
                        Err((sig, msg)) => {
                            if !rep.has_violation(&sig) {
                                rep.violation(sig, msg, serde_json::to_value(&case).unwrap());
                            } else {
                                rep.inc("violations_raw");
                            }
                        }
                    }
                }
            }
        }
    }
    // every way of handing the content over as a list of parts x every content x every backend:
    // a write followed by an overwrite with the other pattern parity
    {
        let mut i = 0usize;
        for kind in [Kind::Local, Kind::OpendalFs, Kind::OpendalMemory] {
            for c in 0..4 {
                for pattern in 0..N_SPLIT {
                    i += 1;
                    if i % args.nshards != args.shard {
                        continue;
                    }
                    let case = Case {
                        kind,
                        strays: vec![],
                        history: vec![
                            Op::Write { tpe: 4, id: 1, content: c, split: Some(pattern) },
                            Op::Write { tpe: 2, id: 0, content: (c + 1) % 4, split: Some((pattern + 3) % N_SPLIT) },
                        ],
                    };
                    rep.inc("executions");
                    rep.inc("split_pattern_cases");
                    if let Err((sig, msg)) = run_case(&case, sb, rep, true) {
                        let sig = format!("{sig}[multi-part-write]");
                        if !rep.has_violation(&sig) {
                            rep.violation(sig, msg, serde_json::to_value(&case).unwrap());
                        }
                    }
                }
            }
        }
    }
    // a write that fails because its temporary file cannot be created: every type x {absent,
    // present} target x what follows; the published file and the listing stay as they were
    if args.shard == 1 % args.nshards {
        for t in 0..TYPES.len() {
            let id = 0usize;
            for first in [false, true] {
                let mut history = Vec::new();
                if first {
                    history.push(Op::Write { tpe: t, id, content: 1, split: None });
                }
                history.push(Op::BlockTmp { tpe: t, id });
                history.push(Op::Write { tpe: t, id, content: 2, split: Some(1) });
                history.push(Op::Write { tpe: t, id: if TYPES[t] == FileType::Config { 0 } else { 1 }, content: 1, split: None });
                history.push(Op::Remove { tpe: t, id });
                let case = Case { kind: Kind::Local, strays: vec![], history };
                rep.inc("executions");
                rep.inc("blocked_tmp_cases");
                if let Err((sig, msg)) = run_case(&case, sb, rep, true) {
                    let sig = format!("{sig}[failed-write]");
                    if !rep.has_violation(&sig) {
                        rep.violation(sig, msg, serde_json::to_value(&case).unwrap());
                    }
                }
            }
        }
    }
    // single stray kinds incl. upper-case hex names, short histories
    if args.shard == 0 {
        for kind in [Kind::Local, Kind::OpendalFs] {
            for s in [Stray::NonHex, Stray::Hex63, Stray::Hex65, Stray::UpperHex, Stray::TmpFile, Stray::DirNamedLikeId, Stray::ForeignDataDir, Stray::PrefixSiblings] {
                let case = Case { kind, strays: vec![s.clone()], history: vec![Op::Write { tpe: 2, id: 0, content: 1, split: None }, Op::Write { tpe: 4, id: 1, content: 2, split: None }, Op::Remove { tpe: 2, id: 0 }] };
                rep.inc("executions");
                rep.inc("single_stray_cases");
                if let Err((sig, msg)) = run_case(&case, sb, rep, true) {
                    let sig = if s == Stray::UpperHex { format!("C20/{kind:?}/upper-case-hex-name-listed") } else { format!("{sig}[stray:{s:?}]") };
                    if !rep.has_violation(&sig) {
                        rep.violation(sig, msg, serde_json::to_value(&case).unwrap());
                    }
                }
            }
        }
    }
}
