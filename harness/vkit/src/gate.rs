//! SCHED engine: a gate at the storage seam. Every backend call of every thread parks at the gate;
//! the controller waits for quiescence of the whole process (all other threads asleep), then the
//! set of parked calls is exactly the set of enabled transitions, one of which it releases.
//! Exploration is a stateless deviation-bounded DFS over the choices.

use std::{
    collections::HashMap,
    sync::{Arc, Condvar, Mutex},
    time::{Duration, Instant},
};

use bytes::Bytes;
use rustic_core::{BytesList, FileType, Id, ReadBackend, RusticResult, WriteBackend};

use crate::{
    backend::{OpKind, Store, ft_name},
    decode::{Desc, RawKey, describe},
};

#[derive(Clone, Debug, PartialEq, Eq, PartialOrd, Ord, Hash, serde::Serialize, serde::Deserialize)]
pub struct OpDesc {
    /// command (harness thread group) that issued the call
    pub cmd: usize,
    /// store tag
    pub tag: usize,
    pub kind: OpKind,
    pub tpe: u8,
    /// canonical description of the file concerned (random-id free)
    pub what: String,
}

impl OpDesc {
    pub fn short(&self) -> String {
        format!("c{}:{}{}:{}", self.cmd, self.kind.name(), if self.tag > 0 { format!("@{}", self.tag) } else { String::new() }, self.what)
    }
}

#[derive(Clone, Debug)]
pub struct Pending {
    /// step at which the controller first saw this call pending (arrival order within one
    /// quiescence period is a race and must not influence choices)
    pub generation: usize,
    pub seq: usize,
    pub desc: OpDesc,
    pub id: Id,
    pub ftype: FileType,
}

#[derive(Default)]
struct GateInner {
    pending: Vec<Pending>,
    next_seq: usize,
    released: Option<usize>,
    arrivals: usize,
    completions: usize,
    running: bool,
    /// id -> canonical description (initial files and everything written so far)
    names: HashMap<(u8, Id), String>,
    /// if false, calls pass through without parking
    enabled: bool,
    /// if set, the gate stays open whatever `set_enabled` says (plain runs of gated closures)
    locked_open: bool,
}

pub struct Gate {
    inner: Mutex<GateInner>,
    cv: Condvar,
    key: RawKey,
}

thread_local! {
    /// which command the current thread (and the threads it spawns? no: set explicitly) belongs to
    static CMD: std::cell::Cell<usize> = const { std::cell::Cell::new(0) };
}

impl Gate {
    pub fn new(key: RawKey, stores: &[Store]) -> Arc<Self> {
        let mut names = HashMap::new();
        for s in stores {
            for (t, i, d) in &s.files {
                _ = names.insert((crate::backend::ft_ord(*t), *i), describe(&key, *t, d).short());
            }
        }
        Arc::new(Self {
            inner: Mutex::new(GateInner {
                names,
                enabled: true,
                ..Default::default()
            }),
            cv: Condvar::new(),
            key,
        })
    }

    pub fn set_enabled(&self, e: bool) {
        let mut g = self.inner.lock().unwrap();
        g.enabled = e && !g.locked_open;
        drop(g);
        self.cv.notify_all();
    }

    /// keep the gate open for good
    pub fn lock_open(&self) {
        let mut g = self.inner.lock().unwrap();
        g.locked_open = true;
        g.enabled = false;
        drop(g);
        self.cv.notify_all();
    }

    fn name_of(g: &GateInner, tpe: FileType, id: &Id) -> String {
        g.names
            .get(&(crate::backend::ft_ord(tpe), *id))
            .cloned()
            .unwrap_or_else(|| format!("{}?", ft_name(tpe)))
    }

    /// park until released; returns the sequence number
    fn arrive(&self, cmd: usize, tag: usize, kind: OpKind, tpe: FileType, id: &Id, content: Option<&[u8]>) -> Option<usize> {
        let mut g = self.inner.lock().unwrap();
        if !g.enabled {
            if let Some(c) = content {
                let d = describe(&self.key, tpe, c).short();
                _ = g.names.insert((crate::backend::ft_ord(tpe), *id), d);
            }
            return None;
        }
        let what = match (kind, content) {
            (OpKind::Write, Some(c)) => {
                let d = describe(&self.key, tpe, c).short();
                _ = g.names.insert((crate::backend::ft_ord(tpe), *id), d.clone());
                d
            }
            (OpKind::List, _) => format!("list-{}", ft_name(tpe)),
            _ => Self::name_of(&g, tpe, id),
        };
        let seq = g.next_seq;
        g.next_seq += 1;
        g.arrivals += 1;
        g.pending.push(Pending {
            generation: usize::MAX,
            seq,
            desc: OpDesc {
                cmd,
                tag,
                kind,
                tpe: crate::backend::ft_ord(tpe),
                what,
            },
            id: *id,
            ftype: tpe,
        });
        self.cv.notify_all();
        while g.released != Some(seq) {
            if !g.enabled {
                // gate was opened: leave
                g.pending.retain(|p| p.seq != seq);
                return None;
            }
            g = self.cv.wait(g).unwrap();
        }
        g.released = None;
        g.running = true;
        g.pending.retain(|p| p.seq != seq);
        Some(seq)
    }

    fn done(&self, seq: Option<usize>) {
        if seq.is_none() {
            return;
        }
        let mut g = self.inner.lock().unwrap();
        g.running = false;
        g.completions += 1;
        self.cv.notify_all();
    }

    pub fn snapshot(&self) -> (Vec<Pending>, usize, usize, bool) {
        let g = self.inner.lock().unwrap();
        (g.pending.clone(), g.arrivals, g.completions, g.running)
    }

    /// release the call with sequence number `seq` and wait until it has completed
    pub fn release_and_wait(&self, seq: usize, timeout: Duration) -> bool {
        let mut g = self.inner.lock().unwrap();
        let target = g.completions + 1;
        g.released = Some(seq);
        self.cv.notify_all();
        let start = Instant::now();
        while g.completions < target {
            let (ng, res) = self.cv.wait_timeout(g, Duration::from_millis(50)).unwrap();
            g = ng;
            if res.timed_out() && start.elapsed() > timeout {
                return false;
            }
        }
        true
    }
}

/// set the command index of the calling thread (inherited by nothing: backends carry their own)
pub fn set_cmd(c: usize) {
    CMD.with(|x| x.set(c));
}

/// A backend whose every call parks at the gate first.
#[derive(Clone)]
pub struct GateBackend {
    pub gate: Arc<Gate>,
    pub inner: Arc<dyn WriteBackend>,
    pub cmd: usize,
    pub tag: usize,
}

impl std::fmt::Debug for GateBackend {
    fn fmt(&self, f: &mut std::fmt::Formatter<'_>) -> std::fmt::Result {
        write!(f, "GateBackend(cmd {})", self.cmd)
    }
}

impl GateBackend {
    pub fn arc(gate: &Arc<Gate>, inner: Arc<dyn WriteBackend>, cmd: usize, tag: usize) -> Arc<dyn WriteBackend> {
        Arc::new(Self {
            gate: gate.clone(),
            inner,
            cmd,
            tag,
        })
    }
}

impl ReadBackend for GateBackend {
    fn location(&self) -> String {
        self.inner.location()
    }
    fn list_with_size(&self, tpe: FileType) -> RusticResult<Vec<(Id, u32)>> {
        let s = self.gate.arrive(self.cmd, self.tag, OpKind::List, tpe, &Id::default(), None);
        let r = self.inner.list_with_size(tpe);
        self.gate.done(s);
        r
    }
    fn read_full(&self, tpe: FileType, id: &Id) -> RusticResult<Bytes> {
        let s = self.gate.arrive(self.cmd, self.tag, OpKind::ReadFull, tpe, id, None);
        let r = self.inner.read_full(tpe, id);
        self.gate.done(s);
        r
    }
    fn read_partial(&self, tpe: FileType, id: &Id, cacheable: bool, offset: u32, length: u32) -> RusticResult<Bytes> {
        let s = self.gate.arrive(self.cmd, self.tag, OpKind::ReadPartial, tpe, id, None);
        let r = self.inner.read_partial(tpe, id, cacheable, offset, length);
        self.gate.done(s);
        r
    }
    fn warmup_path(&self, tpe: FileType, id: &Id) -> String {
        self.inner.warmup_path(tpe, id)
    }
    fn needs_warm_up(&self) -> bool {
        self.inner.needs_warm_up()
    }
    fn warm_up(&self, tpe: FileType, id: &Id) -> RusticResult<()> {
        self.inner.warm_up(tpe, id)
    }
}

impl WriteBackend for GateBackend {
    fn create(&self) -> RusticResult<()> {
        self.inner.create()
    }
    fn write_bytes(&self, tpe: FileType, id: &Id, cacheable: bool, content: BytesList) -> RusticResult<()> {
        let mut data = Vec::with_capacity(content.size());
        for b in content.slice() {
            data.extend_from_slice(b);
        }
        let s = self.gate.arrive(self.cmd, self.tag, OpKind::Write, tpe, id, Some(&data));
        let r = self.inner.write_bytes(tpe, id, cacheable, content);
        self.gate.done(s);
        r
    }
    fn remove(&self, tpe: FileType, id: &Id, cacheable: bool) -> RusticResult<()> {
        let s = self.gate.arrive(self.cmd, self.tag, OpKind::Remove, tpe, id, None);
        let r = self.inner.remove(tpe, id, cacheable);
        self.gate.done(s);
        r
    }
}

// ---------------------------------------------------------------------------------------------
// quiescence detection via /proc

/// CPU affinity of the calling thread
pub fn current_affinity() -> libc::cpu_set_t {
    unsafe {
        let mut set: libc::cpu_set_t = std::mem::zeroed();
        _ = libc::sched_getaffinity(0, std::mem::size_of::<libc::cpu_set_t>(), &mut set);
        set
    }
}

pub fn set_affinity(set: &libc::cpu_set_t) {
    unsafe {
        _ = libc::sched_setaffinity(0, std::mem::size_of::<libc::cpu_set_t>(), set);
    }
}

/// let the calling thread run on every CPU (the controller must not compete with the threads it
/// observes: a thread made runnable by a timer would otherwise look busy while the controller
/// holds the only CPU)
pub fn unpin_current() {
    unsafe {
        let mut set: libc::cpu_set_t = std::mem::zeroed();
        for c in 0..libc::CPU_SETSIZE as usize {
            libc::CPU_SET(c, &mut set);
        }
        _ = libc::sched_setaffinity(0, std::mem::size_of::<libc::cpu_set_t>(), &set);
    }
}

fn gettid() -> i32 {
    unsafe { libc::syscall(libc::SYS_gettid) as i32 }
}

/// debugging aid: states of all threads
pub fn thread_states() -> String {
    let mut out = String::new();
    if let Ok(rd) = std::fs::read_dir("/proc/self/task") {
        for e in rd.flatten() {
            let tid = e.file_name().to_string_lossy().to_string();
            let stat = std::fs::read_to_string(format!("/proc/self/task/{tid}/stat")).unwrap_or_default();
            let wchan = std::fs::read_to_string(format!("/proc/self/task/{tid}/wchan")).unwrap_or_default();
            let comm = std::fs::read_to_string(format!("/proc/self/task/{tid}/comm")).unwrap_or_default();
            let state = stat.rfind(')').map(|p| stat[p + 1..].trim_start().chars().next().unwrap_or('?')).unwrap_or('?');
            out.push_str(&format!("{tid}:{}:{state}:{wchan} ", comm.trim()));
        }
    }
    out
}

/// What the controller observes of one thread
#[derive(Clone, Debug, PartialEq, Eq)]
pub struct ThreadObs {
    pub tid: i32,
    pub state: char,
    /// ns spent on a CPU so far (/proc/<tid>/schedstat)
    pub run_ns: u64,
    /// blocked in a futex wait *with timeout* (a poller, e.g. pariter's 100 us recv_timeout)
    pub timed_futex: bool,
    /// blocked in nanosleep / clock_nanosleep: the system is going to make progress by itself
    pub sleeping: bool,
}

/// observe all threads but the caller; None if /proc could not be read consistently
pub fn scan_threads() -> Option<Vec<ThreadObs>> {
    let me = gettid();
    let rd = std::fs::read_dir("/proc/self/task").ok()?;
    let mut out = Vec::new();
    for e in rd.flatten() {
        let name = e.file_name();
        let Some(tid) = name.to_str().and_then(|s| s.parse::<i32>().ok()) else { continue };
        if tid == me {
            continue;
        }
        let Ok(stat) = std::fs::read_to_string(format!("/proc/self/task/{tid}/stat")) else { continue };
        let p = stat.rfind(')')?;
        let state = stat[p + 1..].trim_start().chars().next().unwrap_or('?');
        if state == 'Z' || state == 'X' {
            continue;
        }
        let sched = std::fs::read_to_string(format!("/proc/self/task/{tid}/schedstat")).unwrap_or_default();
        let run_ns = sched.split_whitespace().next().and_then(|x| x.parse().ok()).unwrap_or(0);
        let sc = std::fs::read_to_string(format!("/proc/self/task/{tid}/syscall")).unwrap_or_default();
        let toks: Vec<&str> = sc.split_whitespace().collect();
        let nr = toks.first().and_then(|x| x.parse::<i64>().ok()).unwrap_or(-1);
        let timed_futex = nr == libc::SYS_futex && toks.get(4).is_some_and(|t| *t != "0x0");
        let sleeping = nr == libc::SYS_nanosleep || nr == libc::SYS_clock_nanosleep;
        out.push(ThreadObs {
            tid,
            state,
            run_ns,
            timed_futex,
            sleeping,
        });
    }
    out.sort_by_key(|t| t.tid);
    Some(out)
}

/// Two consecutive observations show a quiescent process iff the thread set is the same, every
/// thread is asleep in both, none is in a timed sleep, and no thread other than timed-futex
/// pollers consumed any CPU time in between.
pub fn quiescent_between(a: &[ThreadObs], b: &[ThreadObs]) -> bool {
    if a.len() != b.len() {
        return false;
    }
    a.iter().zip(b).all(|(x, y)| {
        x.tid == y.tid
            && x.state == 'S'
            && y.state == 'S'
            && !x.sleeping
            && !y.sleeping
            && ((x.timed_futex && y.timed_futex) || x.run_ns == y.run_ns)
    })
}

/// true iff every thread of this process except the caller is asleep right now (single scan)
pub fn others_asleep() -> bool {
    scan_threads().is_some_and(|t| t.iter().all(|x| x.state == 'S' && !x.sleeping))
}

#[derive(Clone, Debug)]
pub struct Step {
    /// canonical pending set (sorted)
    pub pending: Vec<OpDesc>,
    /// index chosen (into the sorted pending list)
    pub choice: usize,
    /// index of the default choice
    pub default: usize,
}

#[derive(Clone, Debug, PartialEq, Eq)]
pub enum RunEnd {
    Finished,
    Deadlock(Vec<String>),
    Hang(String),
}

pub struct Controller {
    pub gate: Arc<Gate>,
    /// per command: finished flag
    pub finished: Arc<Mutex<Vec<bool>>>,
    pub ncmds: usize,
    /// called after every completed step with (step index, pending op) - e.g. to snapshot states
    pub quiesce_samples: u32,
}

pub type DefaultRule = fn(&[Pending], Option<&Pending>) -> usize;

/// default: the oldest call (by the step at which it became visible, then canonical order)
pub fn oldest_first(p: &[Pending], _last: Option<&Pending>) -> usize {
    p.iter().enumerate().min_by_key(|(i, x)| (x.generation, *i)).map(|(i, _)| i).unwrap_or(0)
}

/// default: stay with the command of the previous step if it has a call pending, else the oldest
pub fn same_command_first(p: &[Pending], last: Option<&Pending>) -> usize {
    if let Some(l) = last {
        if let Some((i, _)) = p.iter().enumerate().filter(|(_, x)| x.desc.cmd == l.desc.cmd).min_by_key(|(i, x)| (x.generation, *i)) {
            return i;
        }
    }
    oldest_first(p, last)
}

impl Controller {
    pub fn wait_quiescent(&self, max: Duration) -> bool {
        let start = Instant::now();
        let mut stable = 0;
        let mut last_gate = self.gate.snapshot();
        let mut last_obs = scan_threads();
        loop {
            std::thread::sleep(Duration::from_micros(120));
            let gate = self.gate.snapshot();
            let obs = scan_threads();
            let gate_same = gate.1 == last_gate.1 && gate.2 == last_gate.2 && !gate.3;
            let quiet = match (&last_obs, &obs) {
                (Some(a), Some(b)) => quiescent_between(a, b),
                _ => false,
            };
            if gate_same && quiet {
                stable += 1;
                if stable >= self.quiesce_samples {
                    return true;
                }
            } else {
                stable = 0;
            }
            last_gate = gate;
            last_obs = obs;
            if start.elapsed() > max {
                return false;
            }
        }
    }

    fn all_finished(&self) -> bool {
        self.finished.lock().unwrap().iter().all(|f| *f)
    }

    /// Drive one execution. `prefix` gives the choices for the first steps, afterwards the default
    /// rule decides. `on_step` is called after each executed call.
    pub fn drive(
        &self,
        prefix: &[OpDesc],
        default: DefaultRule,
        mut on_step: impl FnMut(usize, &Pending),
    ) -> (Vec<Step>, RunEnd, usize) {
        let mut steps = Vec::new();
        let mut first_seen: HashMap<usize, usize> = HashMap::new();
        let mut last: Option<Pending> = None;
        let mut divergences = 0usize;
        loop {
            if !self.wait_quiescent(Duration::from_secs(20)) {
                return (steps, RunEnd::Hang(format!("no quiescence within 20 s; threads: {}; gate: {:?}", thread_states(), self.gate.snapshot())), divergences);
            }
            let (mut pend, _, _, _) = self.gate.snapshot();
            if pend.is_empty() {
                if self.all_finished() {
                    return (steps, RunEnd::Finished, divergences);
                }
                // a timed sleep inside the code under test looks like quiescence: a deadlock
                // verdict has to persist
                let t0 = Instant::now();
                let mut dead = true;
                while t0.elapsed() < Duration::from_millis(700) {
                    std::thread::sleep(Duration::from_millis(5));
                    let (p2, _, _, _) = self.gate.snapshot();
                    if !p2.is_empty() || self.all_finished() || !others_asleep() {
                        dead = false;
                        break;
                    }
                }
                if dead {
                    let unfinished: Vec<String> = self
                        .finished
                        .lock()
                        .unwrap()
                        .iter()
                        .enumerate()
                        .filter(|(_, f)| !**f)
                        .map(|(i, _)| format!("command {i}"))
                        .collect();
                    return (steps, RunEnd::Deadlock(unfinished), divergences);
                }
                continue;
            }
            let step_no = steps.len();
            for p in &mut pend {
                p.generation = *first_seen.entry(p.seq).or_insert(step_no);
            }
            pend.sort_by(|a, b| (&a.desc, a.generation, a.seq).cmp(&(&b.desc, b.generation, b.seq)));
            let def = default(&pend, last.as_ref());
            let i = steps.len();
            // a replayed step names the intended call by its canonical description; if the code
            // under test did not reproduce that call here (uncontrolled internal nondeterminism)
            // the divergence is counted and the default is taken
            let choice = if i < prefix.len() {
                match pend.iter().position(|p| p.desc == prefix[i]) {
                    Some(c) => c,
                    None => {
                        divergences += 1;
                        def
                    }
                }
            } else {
                def
            };
            let chosen = pend[choice].clone();
            steps.push(Step {
                pending: pend.iter().map(|p| p.desc.clone()).collect(),
                choice,
                default: def,
            });
            if !self.gate.release_and_wait(chosen.seq, Duration::from_secs(20)) {
                return (steps, RunEnd::Hang(format!("released call {} did not complete", chosen.desc.short())), divergences);
            }
            on_step(i, &chosen);
            last = Some(chosen);
        }
    }
}

/// One explored execution
pub struct Exec<O> {
    pub steps: Vec<Step>,
    pub end: RunEnd,
    pub outcome: O,
    pub divergences: usize,
}

/// Deviation-bounded DFS. `run(prefix)` performs one complete execution with the given prefix of
/// intended calls. `visit` gets every execution. Returns (#executions, capped).
pub fn explore<O>(
    bound: usize,
    max_execs: usize,
    shard: (usize, usize),
    run: impl FnMut(&[OpDesc]) -> Exec<O>,
    visit: impl FnMut(&[OpDesc], &Exec<O>),
) -> (usize, bool) {
    explore_filtered(bound, max_execs, shard, |_, _| true, run, visit)
}

/// like `explore`; `allow(chosen, alternative)` restricts which deviations are taken (e.g. only
/// switches to another command)
pub fn explore_filtered<O>(
    bound: usize,
    max_execs: usize,
    shard: (usize, usize),
    allow: impl Fn(&OpDesc, &OpDesc) -> bool,
    mut run: impl FnMut(&[OpDesc]) -> Exec<O>,
    mut visit: impl FnMut(&[OpDesc], &Exec<O>),
) -> (usize, bool) {
    // stack of (prefix, deviations used)
    let mut stack: Vec<(Vec<OpDesc>, usize)> = vec![(Vec::new(), 0)];
    let started = Instant::now();
    let mut execs = 0usize;
    let mut capped = false;
    let mut top_level = 0usize;
    while let Some((prefix, used)) = stack.pop() {
        let wall_cap: f64 = std::env::var("VERIF_WALL_CAP").ok().and_then(|s| s.parse().ok()).unwrap_or(f64::MAX);
        if execs >= max_execs || started.elapsed().as_secs_f64() > wall_cap {
            capped = true;
            break;
        }
        let x = run(&prefix);
        // the root execution is run by every shard but visited by shard 0 only
        let is_root = prefix.is_empty();
        if !is_root || shard.0 == 0 {
            execs += 1;
            visit(&prefix, &x);
        }
        if used + 1 > bound {
            continue;
        }
        for i in prefix.len()..x.steps.len() {
            let st = &x.steps[i];
            if st.pending.len() < 2 {
                continue;
            }
            for alt in 0..st.pending.len() {
                // identical descriptions are interchangeable
                if st.pending[alt] == st.pending[st.choice] || (alt > 0 && st.pending[alt] == st.pending[alt - 1]) {
                    continue;
                }
                if !allow(&st.pending[st.choice], &st.pending[alt]) {
                    continue;
                }
                if is_root {
                    // shard the first level of deviations
                    let mine = top_level % shard.1 == shard.0;
                    top_level += 1;
                    if !mine {
                        continue;
                    }
                }
                let mut p: Vec<OpDesc> = x.steps[..i].iter().map(|s| s.pending[s.choice].clone()).collect();
                p.push(st.pending[alt].clone());
                stack.push((p, used + 1));
            }
        }
    }
    (execs, capped)
}
