//! Helpers to drive real `rustic_core::Repository` handles over the in-memory world.

use std::path::PathBuf;

use rustic_core::{
    BackupOptions, CheckOptions, ConfigOptions, Credentials, IndexedFullStatus, IndexedIdsStatus,
    KeyOptions, OpenStatus, Repository, RepositoryBackends, RepositoryOptions, RusticResult,
    SnapshotOptions,
    repofile::{ConfigFile, MasterKey, SnapshotFile},
};

use crate::{
    backend::{MemBackend, SharedWorld, Store, World},
    decode::RawKey,
    logical::{LTree, read_snapshot},
    source::MemSource,
};

pub const POLY: &str = "3da3358b4dc173";
pub const REPO_ID: &str = "1111111111111111111111111111111111111111111111111111111111111111";

/// the fixed master key used by all engines but C04's credential histories
pub fn master_key() -> MasterKey {
    serde_json::from_value(serde_json::json!({
        "mac": {"k": "AAECAwQFBgcICQoLDA0ODw==", "r": "EBESExQVFhcYGRobHB0eHw=="},
        "encrypt": "ICEiIyQlJicoKSorLC0uLzAxMjM0NTY3ODk6Ozw9Pj8="
    }))
    .expect("master key json")
}

pub fn other_master_key() -> MasterKey {
    serde_json::from_value(serde_json::json!({
        "mac": {"k": "EBESExQVFhcYGRobHB0eHw==", "r": "AAECAwQFBgcICQoLDA0ODw=="},
        "encrypt": "QEFCQ0RFRkdISUpLTE1OT1BRUlNUVVZXWFlaW1xdXl8="
    }))
    .expect("master key json")
}

pub fn base_config(version: u32) -> ConfigFile {
    serde_json::from_value(serde_json::json!({
        "version": version,
        "id": REPO_ID,
        "chunker_polynomial": POLY,
    }))
    .expect("config json")
}

/// small packs / tiny chunks so that small inputs produce many chunks and packs
pub fn tiny_config(version: u32) -> ConfigFile {
    let mut c = base_config(version);
    c.chunk_size = Some(64);
    c.chunk_min_size = Some(64);
    c.chunk_max_size = Some(256);
    c
}

pub fn repo_opts() -> RepositoryOptions {
    RepositoryOptions::default().no_cache(true)
}

#[derive(Clone)]
pub struct Env {
    pub world: SharedWorld,
    pub key: MasterKey,
    pub raw: RawKey,
    /// tag of the main (cold) store and optional hot store
    pub main: usize,
    pub hot: Option<usize>,
    pub opts: RepositoryOptions,
}

impl Env {
    pub fn new(world: SharedWorld) -> Self {
        let key = master_key();
        let raw = RawKey::from_master(&key);
        Self {
            world,
            key,
            raw,
            main: 0,
            hot: None,
            opts: repo_opts(),
        }
    }
    pub fn single() -> Self {
        Self::new(World::new(1).shared())
    }
    pub fn from_store(store: Store) -> Self {
        Self::new(World::from_stores(vec![store]).shared())
    }
    /// a new independent world holding `store`, with the same key and options
    pub fn fork(&self, store: Store) -> Self {
        let mut e = Self::new(World::from_stores(vec![store]).shared());
        e.key = self.key.clone();
        e.raw = self.raw.clone();
        e.opts = self.opts.clone();
        e
    }
    pub fn hotcold() -> Self {
        let mut e = Self::new(World::new(2).shared());
        e.hot = Some(1);
        e
    }
    pub fn with_key(mut self, key: MasterKey) -> Self {
        self.raw = RawKey::from_master(&key);
        self.key = key;
        self
    }
    pub fn creds(&self) -> Credentials {
        Credentials::Masterkey(self.key.clone())
    }
    pub fn backends(&self) -> RepositoryBackends {
        RepositoryBackends::new(
            MemBackend::arc(&self.world, self.main),
            self.hot.map(|h| MemBackend::arc(&self.world, h)),
        )
    }
    pub fn store(&self) -> Store {
        self.world.lock().unwrap().stores[self.main].clone()
    }
    pub fn stores(&self) -> Vec<Store> {
        self.world.lock().unwrap().stores.clone()
    }
    pub fn set_store(&self, s: Store) {
        self.world.lock().unwrap().stores[self.main] = s;
    }
    pub fn new_repo(&self) -> RusticResult<Repository<()>> {
        Repository::new(&self.opts, &self.backends())
    }
    pub fn init_with(&self, config: ConfigFile) -> RusticResult<Repository<OpenStatus>> {
        self.new_repo()?
            .init_with_config(&self.creds(), &KeyOptions::default(), config)
    }
    pub fn init_opts(&self, opts: &ConfigOptions) -> RusticResult<Repository<OpenStatus>> {
        self.new_repo()?
            .init(&self.creds(), &KeyOptions::default(), opts)
    }
    pub fn open(&self) -> RusticResult<Repository<OpenStatus>> {
        self.new_repo()?.open(&self.creds())
    }
    pub fn open_ids(&self) -> RusticResult<Repository<IndexedIdsStatus>> {
        self.open()?.to_indexed_ids()
    }
    pub fn open_full(&self) -> RusticResult<Repository<IndexedFullStatus>> {
        self.open()?.to_indexed()
    }
    /// the ids-only index built by the variant that compares the index with the pack listing
    pub fn open_ids_checked(&self) -> RusticResult<Repository<IndexedIdsStatus>> {
        self.open()?.to_indexed_ids_checked()
    }
    /// the full index built by the variant that compares the index with the pack listing
    pub fn open_full_checked(&self) -> RusticResult<Repository<IndexedFullStatus>> {
        self.open()?.to_indexed_checked()
    }
}

/// Backup options as the harness uses them: snapshots are identified by their label, so parent
/// detection must group by host and paths only (the default also groups by label and would never
/// find a parent among differently labelled snapshots).
pub fn popts() -> rustic_core::ParentOptions {
    rustic_core::ParentOptions::default().group_by(Some("host,paths".parse::<rustic_core::SnapshotGroupCriterion>().expect("criterion")))
}

pub fn bopts() -> BackupOptions {
    BackupOptions::default().parent_opts(popts())
}

pub fn snap_opts(label: &str, time_s: i64) -> RusticResult<SnapshotFile> {
    let time = jiff::Timestamp::from_second(time_s)
        .expect("ts")
        .to_zoned(jiff::tz::TimeZone::UTC);
    SnapshotOptions::default()
        .label(Some(label.to_string()))
        .host(Some("h".to_string()))
        .time(Some(time))
        .to_snapshot()
}

/// backup `src` with a fresh handle
pub fn backup(
    env: &Env,
    src: &MemSource,
    label: &str,
    time_s: i64,
    opts: &BackupOptions,
) -> RusticResult<SnapshotFile> {
    let repo = env.open_ids()?;
    backup_with(&repo, src, label, time_s, opts)
}

pub fn backup_with<S: rustic_core::IndexedIds>(
    repo: &Repository<S>,
    src: &MemSource,
    label: &str,
    time_s: i64,
    opts: &BackupOptions,
) -> RusticResult<SnapshotFile> {
    let snap = snap_opts(label, time_s)?;
    repo.archive(opts, src, snap, &[PathBuf::from(&src.root)])
}

/// All snapshots by label, fully read through the public API with a fresh handle.
pub fn read_all(env: &Env) -> Result<std::collections::BTreeMap<String, LTree>, String> {
    let repo = env.open_full().map_err(|e| format!("open: {}", e.display_log()))?;
    let snaps = repo
        .get_all_snapshots()
        .map_err(|e| format!("get_all_snapshots: {}", e.display_log()))?;
    snapshot_count_agrees(env, snaps.len())?;
    let mut out = std::collections::BTreeMap::new();
    for s in snaps {
        let t = read_snapshot(&repo, &s).map_err(|e| format!("snapshot {}: {e}", s.label))?;
        if out.insert(s.label.clone(), t).is_some() {
            return Err(format!("duplicate snapshot label {}", s.label));
        }
    }
    Ok(out)
}

/// A listing of all snapshots which succeeds must cover every snapshot file the store holds: a file
/// which cannot be read has to make the listing fail, not shrink it.
pub fn snapshot_count_agrees(env: &Env, returned: usize) -> Result<(), String> {
    let stored = env.store().ids(rustic_core::FileType::Snapshot).len();
    if stored == returned {
        Ok(())
    } else {
        Err(format!("listing snapshots: the store holds {stored} snapshot files but get_all_snapshots returned {returned} snapshots without an error"))
    }
}

/// run check(read_data); returns the list of error messages (empty = clean)
pub fn check_errors(env: &Env, read_data: bool) -> Result<Vec<String>, String> {
    let repo = env.open().map_err(|e| format!("open: {}", e.display_log()))?;
    let opts = CheckOptions::default().read_data(read_data);
    let res = repo.check(opts).map_err(|e| format!("check failed: {}", e.display_log()))?;
    Ok(check_result_errors(&res))
}

pub fn check_result_errors(res: &rustic_core::CheckResults) -> Vec<String> {
    res.0
        .iter()
        .filter(|(level, _)| format!("{level:?}") == "Error")
        .map(|(_, e)| format!("{e:?}"))
        .collect()
}
