//! File-system helpers for the engines that are about the file system (C01 restore path, C14,
//! C19 cache directory, C20 local backends): sandboxes on tmpfs and tree digests via lstat.

use std::{
    collections::BTreeMap,
    fs,
    os::unix::fs::{MetadataExt, PermissionsExt},
    path::{Path, PathBuf},
};

use serde::{Deserialize, Serialize};

#[derive(Clone, Debug, PartialEq, Eq, Serialize, Deserialize)]
pub struct FsNode {
    /// "file" | "dir" | "symlink" | "other"
    pub kind: String,
    pub data: Option<Vec<u8>>,
    pub target: Option<Vec<u8>>,
    pub mode: u32,
    /// mtime in ns
    pub mtime: i128,
    pub ino: u64,
    pub nlink: u64,
}

pub type FsTree = BTreeMap<Vec<u8>, FsNode>;

/// a fresh sandbox directory on tmpfs (falls back to the system temp dir)
pub fn sandbox(tag: &str) -> PathBuf {
    let base = std::env::var("VERIF_SCRATCH")
        .ok()
        .map(PathBuf::from)
        .filter(|p| p.is_dir())
        .unwrap_or_else(|| if Path::new("/dev/shm").is_dir() { PathBuf::from("/dev/shm") } else { std::env::temp_dir() });
    let p = base.join(format!("rustic-verif.{}.{tag}", std::process::id()));
    _ = fs::remove_dir_all(&p);
    fs::create_dir_all(&p).expect("sandbox");
    p
}

/// lstat-based snapshot of everything below `root` (root itself excluded), keyed by relative path
pub fn snapshot(root: &Path) -> FsTree {
    use std::os::unix::ffi::OsStrExt;
    let mut out = FsTree::new();
    let mut stack = vec![root.to_path_buf()];
    while let Some(dir) = stack.pop() {
        let Ok(rd) = fs::read_dir(&dir) else { continue };
        for e in rd.flatten() {
            let p = e.path();
            let Ok(md) = fs::symlink_metadata(&p) else { continue };
            let rel = p.strip_prefix(root).unwrap().as_os_str().as_bytes().to_vec();
            let ft = md.file_type();
            let (kind, data, target) = if ft.is_dir() {
                stack.push(p.clone());
                ("dir", None, None)
            } else if ft.is_symlink() {
                ("symlink", None, fs::read_link(&p).ok().map(|t| t.as_os_str().as_bytes().to_vec()))
            } else if ft.is_file() {
                ("file", fs::read(&p).ok(), None)
            } else {
                ("other", None, None)
            };
            _ = out.insert(
                rel,
                FsNode {
                    kind: kind.into(),
                    data,
                    target,
                    mode: md.permissions().mode() & 0o7777,
                    mtime: i128::from(md.mtime()) * 1_000_000_000 + i128::from(md.mtime_nsec()),
                    ino: md.ino(),
                    nlink: md.nlink(),
                },
            );
        }
    }
    out
}

pub fn set_mtime(path: &Path, ns: i128) {
    use std::os::unix::ffi::OsStrExt;
    let c = std::ffi::CString::new(path.as_os_str().as_bytes()).expect("path");
    let ts = libc::timespec {
        tv_sec: (ns.div_euclid(1_000_000_000)) as libc::time_t,
        tv_nsec: (ns.rem_euclid(1_000_000_000)) as libc::c_long,
    };
    let times = [ts, ts];
    unsafe {
        _ = libc::utimensat(libc::AT_FDCWD, c.as_ptr(), times.as_ptr(), libc::AT_SYMLINK_NOFOLLOW);
    }
}

pub fn set_mode(path: &Path, mode: u32) {
    _ = fs::set_permissions(path, fs::Permissions::from_mode(mode));
}

/// recreate `root` from a snapshot taken by `snapshot` (files, dirs, symlinks; contents only)
pub fn restore_tree(root: &Path, t: &FsTree) {
    use std::os::unix::ffi::OsStrExt;
    _ = fs::remove_dir_all(root);
    fs::create_dir_all(root).expect("root");
    for (p, n) in t {
        let path = root.join(std::ffi::OsStr::from_bytes(p));
        match n.kind.as_str() {
            "dir" => _ = fs::create_dir_all(&path),
            "file" => {
                if let Some(par) = path.parent() {
                    _ = fs::create_dir_all(par);
                }
                _ = fs::write(&path, n.data.as_deref().unwrap_or_default());
            }
            "symlink" => {
                if let Some(par) = path.parent() {
                    _ = fs::create_dir_all(par);
                }
                _ = std::os::unix::fs::symlink(std::ffi::OsStr::from_bytes(n.target.as_deref().unwrap_or_default()), &path);
            }
            _ => {}
        }
    }
}

/// content-only view (kind, data, target) for comparisons that ignore times and inodes
pub fn content_view(t: &FsTree) -> BTreeMap<Vec<u8>, (String, Option<Vec<u8>>, Option<Vec<u8>>)> {
    t.iter().map(|(p, n)| (p.clone(), (n.kind.clone(), n.data.clone(), n.target.clone()))).collect()
}
