//! Logical view of snapshots: path -> (type, content hash, metadata), computed (a) from the source
//! model and (b) from a repository through rustic's public read API.

use std::{collections::BTreeMap, os::unix::ffi::OsStrExt};

use rustic_core::{
    IndexedFull, LsOptions, Repository,
    repofile::{Node, NodeType, SnapshotFile},
};
use serde::{Deserialize, Serialize};

use crate::{
    decode::sha256_hex,
    source::{Ent, Entry},
};

#[derive(Clone, Debug, PartialEq, Eq, Default, Serialize, Deserialize)]
pub struct LNode {
    pub kind: String,
    pub sha: Option<String>,
    pub size: u64,
    pub mode: Option<u32>,
    /// ns since epoch
    pub mtime: Option<i128>,
    pub target: Option<Vec<u8>>,
}

pub type LTree = BTreeMap<Vec<u8>, LNode>;

/// independent unescape of the Go strconv.Quote-like node name encoding
pub fn unescape(s: &str) -> Vec<u8> {
    let cs: Vec<char> = s.chars().collect();
    let mut out = Vec::new();
    let mut i = 0;
    let hexval = |cs: &[char], i: usize, n: usize| -> Option<u32> {
        if i + n > cs.len() {
            return None;
        }
        let t: String = cs[i..i + n].iter().collect();
        u32::from_str_radix(&t, 16).ok()
    };
    while i < cs.len() {
        let c = cs[i];
        if c != '\\' || i + 1 >= cs.len() {
            let mut b = [0u8; 4];
            out.extend_from_slice(c.encode_utf8(&mut b).as_bytes());
            i += 1;
            continue;
        }
        let e = cs[i + 1];
        i += 2;
        match e {
            '\\' => out.push(b'\\'),
            '"' => out.push(b'"'),
            '\'' => out.push(b'\''),
            'a' => out.push(7),
            'b' => out.push(8),
            'f' => out.push(12),
            'n' => out.push(b'\n'),
            'r' => out.push(b'\r'),
            't' => out.push(b'\t'),
            'v' => out.push(11),
            'x' => {
                if let Some(v) = hexval(&cs, i, 2) {
                    out.push(v as u8);
                    i += 2;
                }
            }
            'u' | 'U' => {
                let n = if e == 'u' { 4 } else { 8 };
                if let Some(ch) = hexval(&cs, i, n).and_then(char::from_u32) {
                    let mut b = [0u8; 4];
                    out.extend_from_slice(ch.encode_utf8(&mut b).as_bytes());
                    i += n;
                }
            }
            other => {
                out.push(b'\\');
                let mut b = [0u8; 4];
                out.extend_from_slice(other.encode_utf8(&mut b).as_bytes());
            }
        }
    }
    out
}

/// Logical tree of a source model rooted at `root` (as `MemSource` stores it).
pub fn model_tree(root: &str, tree: &Entry) -> LTree {
    let mut out = LTree::new();
    let mut all = vec![(root.as_bytes().to_vec(), tree.clone())];
    tree.walk(root.as_bytes(), &mut all);
    for (path, e) in all {
        let ln = match &e.ent {
            Ent::Dir(_) => LNode {
                kind: "dir".into(),
                mode: e.meta.mode,
                mtime: e.meta.mtime,
                ..Default::default()
            },
            Ent::File(d) => LNode {
                kind: "file".into(),
                sha: Some(sha256_hex(d)),
                size: d.len() as u64,
                mode: e.meta.mode,
                mtime: e.meta.mtime,
                target: None,
            },
            Ent::Symlink(t) => LNode {
                kind: "symlink".into(),
                mode: e.meta.mode,
                mtime: e.meta.mtime,
                target: Some(t.clone()),
                ..Default::default()
            },
        };
        _ = out.insert(path, ln);
    }
    out
}

pub fn lnode_of(node: &Node, content: Option<&[u8]>) -> LNode {
    let kind = match &node.node_type {
        NodeType::File => "file",
        NodeType::Dir => "dir",
        NodeType::Symlink { .. } => "symlink",
        NodeType::Dev { .. } => "dev",
        NodeType::Chardev { .. } => "chardev",
        NodeType::Fifo => "fifo",
        NodeType::Socket => "socket",
    };
    LNode {
        kind: kind.into(),
        sha: content.map(sha256_hex),
        size: content.map_or(0, |c| c.len() as u64),
        mode: node.meta.mode.map(crate::source::from_go_mode),
        mtime: node.meta.mtime.map(|t| t.as_nanosecond()),
        target: node
            .is_symlink()
            .then(|| node.node_type.to_link().as_os_str().as_bytes().to_vec()),
    }
}

/// Read one snapshot completely through the public API (ls + dump).
pub fn read_snapshot<S: IndexedFull>(
    repo: &Repository<S>,
    snap: &SnapshotFile,
) -> Result<LTree, String> {
    let root = repo
        .node_from_snapshot_and_path(snap, "")
        .map_err(|e| format!("root node: {}", e.display_log()))?;
    let mut out = LTree::new();
    let opts = LsOptions::default().recursive(true);
    let iter = repo.ls(&root, &opts).map_err(|e| format!("ls: {}", e.display_log()))?;
    for item in iter {
        let (path, node) = item.map_err(|e| format!("ls item: {}", e.display_log()))?;
        let pb = path.as_os_str().as_bytes().to_vec();
        if pb.is_empty() {
            continue;
        }
        let ln = if node.is_file() {
            let mut buf = Vec::new();
            repo.dump(&node, &mut buf)
                .map_err(|e| format!("dump {}: {}", path.display(), e.display_log()))?;
            // the same dump into a writer which accepts a few bytes per call (a pipe, a socket): the
            // bytes that arrive must be the same
            let mut short = ShortWriter { out: Vec::with_capacity(buf.len()), per_call: 7 };
            repo.dump(&node, &mut short)
                .map_err(|e| format!("dump {} into a short-writing writer: {}", path.display(), e.display_log()))?;
            if short.out != buf {
                return Err(format!(
                    "dump {}: a writer accepting 7 bytes per call received {} bytes, a Vec received {}{}",
                    path.display(),
                    short.out.len(),
                    buf.len(),
                    if short.out.len() == buf.len() { " (other bytes)" } else { "" }
                ));
            }
            if buf.len() as u64 != node.meta.size {
                return Err(format!(
                    "dump {}: node size {} but {} bytes dumped",
                    path.display(),
                    node.meta.size,
                    buf.len()
                ));
            }
            lnode_of(&node, Some(&buf))
        } else {
            lnode_of(&node, None)
        };
        _ = out.insert(pb, ln);
    }
    Ok(out)
}

/// Compare expecting equality; returns a short description of the first difference.
pub fn diff(expected: &LTree, got: &LTree) -> Option<String> {
    for (p, e) in expected {
        match got.get(p) {
            None => return Some(format!("missing path {:?}", String::from_utf8_lossy(p))),
            Some(g) if g != e => {
                return Some(format!(
                    "path {:?}: expected {:?}, got {:?}",
                    String::from_utf8_lossy(p),
                    e,
                    g
                ));
            }
            _ => {}
        }
    }
    for p in got.keys() {
        if !expected.contains_key(p) {
            return Some(format!("unexpected path {:?}", String::from_utf8_lossy(p)));
        }
    }
    None
}

/// a writer whose `write` takes at most `per_call` bytes, as `std::io::Write` allows
struct ShortWriter {
    out: Vec<u8>,
    per_call: usize,
}

impl std::io::Write for ShortWriter {
    fn write(&mut self, data: &[u8]) -> std::io::Result<usize> {
        let n = data.len().min(self.per_call);
        self.out.extend_from_slice(&data[..n]);
        Ok(n)
    }
    fn flush(&mut self) -> std::io::Result<()> {
        Ok(())
    }
}
