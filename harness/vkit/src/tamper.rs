//! TAMPER engine: single faults in stored files.

use bytes::Bytes;
use rustic_core::{FileType, Id};
use serde::{Deserialize, Serialize};
use serde_json::Value;

use crate::{
    backend::Store,
    decode::{RawKey, id_of, open_json, pack_header, seal_json},
};

#[derive(Clone, Debug, Serialize, Deserialize, PartialEq, Eq, Hash)]
pub enum Fault {
    Remove,
    Truncate(usize),
    Flip { byte: usize, bit: u8 },
    Append(usize),
    /// replace the content by the content of the sibling (same type) at this position in the listing
    SwapWith(usize),
    /// packs only: the authentic trailer (sealed header + length field) of the pack at this position
    /// in the listing - possibly the pack's own - is appended (an extension that ends in a valid
    /// header)
    AppendTrailerOf(usize),
    /// the same plaintext sealed under another key
    OtherKey,
    /// index only: list one pack twice / drop one blob entry / drop one pack entry
    /// (the modified index is re-sealed with the repository key and stored under its new id)
    IndexDupPack(usize),
    IndexDropBlob(usize, usize),
    IndexDropPack(usize),
}

impl Fault {
    pub fn class(&self) -> &'static str {
        match self {
            Fault::Remove => "remove",
            Fault::Truncate(_) => "truncate",
            Fault::Flip { .. } => "flip",
            Fault::Append(_) => "append",
            Fault::SwapWith(_) => "swap",
            Fault::AppendTrailerOf(_) => "append-trailer",
            Fault::OtherKey => "other-key",
            Fault::IndexDupPack(_) => "index-dup-pack",
            Fault::IndexDropBlob(..) => "index-drop-blob",
            Fault::IndexDropPack(_) => "index-drop-pack",
        }
    }
}

/// region of a byte offset inside a stored file (for coverage statistics)
pub fn region(raw: &RawKey, tpe: FileType, data: &[u8], off: usize) -> &'static str {
    let n = data.len();
    if tpe != FileType::Pack {
        return if off < 16 {
            "nonce"
        } else if off + 16 >= n {
            "mac"
        } else {
            "ciphertext"
        };
    }
    if off + 4 >= n {
        return "trailer";
    }
    let hl = u32::from_le_bytes(data[n - 4..].try_into().unwrap()) as usize;
    if hl + 4 <= n && off >= n - 4 - hl {
        return "pack-header";
    }
    if let Ok(h) = pack_header(raw, data) {
        for b in h {
            let (o, l) = (b.offset as usize, b.length as usize);
            if off >= o && off < o + l {
                return if off < o + 16 {
                    "blob-nonce"
                } else if off + 16 >= o + l {
                    "blob-mac"
                } else {
                    "blob-ciphertext"
                };
            }
        }
    }
    "pack-other"
}

/// fault list for one stored file. `dense`: every bit of every byte and every truncation length;
/// otherwise one bit per byte (all 8 bits in structural regions) and boundary truncations.
pub fn faults_for(raw: &RawKey, store: &Store, tpe: FileType, id: &Id, dense: bool, max_flip_len: usize) -> Vec<Fault> {
    let data = store.get(tpe, id).expect("file");
    let n = data.len();
    let mut v = vec![Fault::Remove];
    // truncations
    if dense && n <= max_flip_len {
        for l in 0..n {
            v.push(Fault::Truncate(l));
        }
    } else {
        let mut ls = vec![0usize, 1, 15, 16, 17, 31, 32, 33, n / 2];
        for d in [1usize, 4, 5, 16, 17, 32, 33, 36, 37] {
            if n > d {
                ls.push(n - d);
            }
        }
        if tpe == FileType::Pack {
            if let Ok(h) = pack_header(raw, data) {
                for b in h {
                    ls.push(b.offset as usize);
                    ls.push((b.offset + b.length) as usize);
                }
            }
        }
        ls.retain(|l| *l < n);
        ls.sort_unstable();
        ls.dedup();
        v.extend(ls.into_iter().map(Fault::Truncate));
    }
    for a in [1usize, 16, 32] {
        v.push(Fault::Append(a));
    }
    // bit flips
    if n <= max_flip_len {
        for byte in 0..n {
            let structural = !matches!(region(raw, tpe, data, byte), "ciphertext" | "blob-ciphertext" | "pack-header");
            if dense || structural {
                for bit in 0..8 {
                    v.push(Fault::Flip { byte, bit });
                }
            } else {
                v.push(Fault::Flip { byte, bit: (byte % 8) as u8 });
            }
        }
    } else {
        // large files: structural regions completely, ciphertext on a stride
        for byte in 0..n {
            let r = region(raw, tpe, data, byte);
            let structural = !matches!(r, "ciphertext" | "blob-ciphertext");
            if structural {
                for bit in if dense { 0..8 } else { (byte % 8) as u8..(byte % 8) as u8 + 1 } {
                    v.push(Fault::Flip { byte, bit });
                }
            } else if byte % 61 == 0 {
                v.push(Fault::Flip { byte, bit: (byte % 8) as u8 });
            }
        }
    }
    // swaps with siblings
    let sibs = store.ids(tpe);
    for (i, s) in sibs.iter().enumerate() {
        if s != id {
            v.push(Fault::SwapWith(i));
        }
    }
    if tpe == FileType::Pack {
        for i in 0..sibs.len() {
            v.push(Fault::AppendTrailerOf(i));
        }
    }
    if tpe != FileType::Key {
        v.push(Fault::OtherKey);
    }
    if tpe == FileType::Index {
        if let Ok(j) = open_json(raw, data) {
            let packs = j["packs"].as_array().map_or(0, Vec::len);
            for p in 0..packs {
                v.push(Fault::IndexDupPack(p));
                v.push(Fault::IndexDropPack(p));
                let blobs = j["packs"][p]["blobs"].as_array().map_or(0, Vec::len);
                for b in 0..blobs {
                    v.push(Fault::IndexDropBlob(p, b));
                }
            }
        }
    }
    v
}

/// apply the fault to a copy of the store; None if not applicable
pub fn apply(raw: &RawKey, other: &RawKey, store: &Store, tpe: FileType, id: &Id, f: &Fault) -> Option<Store> {
    let mut st = store.clone();
    let data = store.get(tpe, id)?.clone();
    match f {
        Fault::Remove => {
            _ = st.del(tpe, id);
        }
        Fault::Truncate(l) => st.put(tpe, id, data.slice(0..(*l).min(data.len()))),
        Fault::Flip { byte, bit } => {
            let mut v = data.to_vec();
            *v.get_mut(*byte)? ^= 1 << bit;
            st.put(tpe, id, v.into());
        }
        Fault::Append(a) => {
            let mut v = data.to_vec();
            v.extend(std::iter::repeat_n(0xa5u8, *a));
            st.put(tpe, id, v.into());
        }
        Fault::SwapWith(i) => {
            let sib = *store.ids(tpe).get(*i)?;
            let sd = store.get(tpe, &sib)?.clone();
            st.put(tpe, id, sd);
        }
        Fault::AppendTrailerOf(i) => {
            let sib = *store.ids(tpe).get(*i)?;
            let sd = store.get(tpe, &sib)?.clone();
            let n = sd.len();
            let hl = u32::from_le_bytes(sd.get(n.checked_sub(4)?..)?.try_into().ok()?) as usize;
            let trailer = sd.get(n.checked_sub(4 + hl)?..)?;
            let mut v = data.to_vec();
            v.extend_from_slice(trailer);
            st.put(tpe, id, v.into());
        }
        Fault::OtherKey => {
            if tpe == FileType::Pack {
                // re-seal every blob and the header under the other key, same layout
                let h = pack_header(raw, &data).ok()?;
                let mut out = Vec::new();
                for (i, b) in h.iter().enumerate() {
                    let (o, l) = (b.offset as usize, b.length as usize);
                    let plain = raw.open(&data[o..o + l]).ok()?;
                    let mut nonce = [0x42u8; 16];
                    nonce[0] = i as u8;
                    out.extend_from_slice(&other.seal(nonce, &plain));
                }
                let n = data.len();
                let hl = u32::from_le_bytes(data[n - 4..].try_into().ok()?) as usize;
                let hp = raw.open(&data[n - 4 - hl..n - 4]).ok()?;
                out.extend_from_slice(&other.seal([0x43u8; 16], &hp));
                out.extend_from_slice(&data[n - 4..]);
                st.put(tpe, id, out.into());
            } else {
                let plain = raw.open(&data).ok()?;
                st.put(tpe, id, other.seal([0x44u8; 16], &plain).into());
            }
        }
        Fault::IndexDupPack(p) | Fault::IndexDropPack(p) | Fault::IndexDropBlob(p, _) => {
            let mut j: Value = open_json(raw, &data).ok()?;
            let packs = j["packs"].as_array_mut()?;
            match f {
                Fault::IndexDupPack(_) => {
                    let c = packs.get(*p)?.clone();
                    packs.push(c);
                }
                Fault::IndexDropPack(_) => {
                    if *p >= packs.len() {
                        return None;
                    }
                    _ = packs.remove(*p);
                }
                Fault::IndexDropBlob(_, b) => {
                    let blobs = packs.get_mut(*p)?["blobs"].as_array_mut()?;
                    if *b >= blobs.len() {
                        return None;
                    }
                    _ = blobs.remove(*b);
                }
                _ => unreachable!(),
            }
            let sealed: Bytes = seal_json(raw, &j, 777).into();
            _ = st.del(tpe, id);
            st.put(tpe, &id_of(&sealed), sealed);
        }
    }
    Some(st)
}

/// run `f` on items `0..n` with `threads` OS threads (cases that sleep, not compute)
pub fn par_map<T: Send, F: Fn(usize) -> T + Sync>(n: usize, threads: usize, f: F) -> Vec<T> {
    use std::sync::{
        Mutex,
        atomic::{AtomicUsize, Ordering},
    };
    let next = AtomicUsize::new(0);
    let out: Mutex<Vec<(usize, T)>> = Mutex::new(Vec::with_capacity(n));
    std::thread::scope(|s| {
        for _ in 0..threads.max(1).min(n.max(1)) {
            _ = s.spawn(|| {
                loop {
                    let i = next.fetch_add(1, Ordering::SeqCst);
                    if i >= n {
                        break;
                    }
                    let r = f(i);
                    out.lock().unwrap().push((i, r));
                }
            });
        }
    });
    let mut v = out.into_inner().unwrap();
    v.sort_by_key(|(i, _)| *i);
    v.into_iter().map(|(_, r)| r).collect()
}
