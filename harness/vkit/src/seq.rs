//! SEQ engine: explicit-state breadth-first search over operation histories. Every transition runs
//! one real public command on fresh repository handles; successors are de-duplicated on a
//! canonical form that never contains random ids.

use std::collections::{HashSet, VecDeque};

use serde::{Serialize, de::DeserializeOwned};
use serde_json::{Value, json};

use crate::report::{Args, Report, h64};

/// A violation: (signature, message)
pub type Viol = (String, String);

pub trait SeqModel {
    type State: Clone;
    type Action: Clone + Serialize + DeserializeOwned + std::fmt::Debug;

    /// named initial states (may be non-initial repository states built by real commands)
    fn initial(&self) -> Vec<(String, Self::State)>;
    /// enabled actions, simplest first
    fn actions(&self, s: &Self::State) -> Vec<Self::Action>;
    /// run the real command; Ok(new state) or a violation of a transition post-condition
    fn step(&self, s: &Self::State, a: &Self::Action, rep: &mut Report) -> Result<Self::State, Viol>;
    /// canonical form (random-id free)
    fn canon(&self, s: &Self::State) -> String;
    /// state invariant (evaluated once per distinct state)
    fn invariant(&self, s: &Self::State, rep: &mut Report) -> Result<(), Viol>;
    /// short class of an action for per-action statistics
    fn action_class(&self, a: &Self::Action) -> String;
}

fn case_json<M: SeqModel>(init: &str, hist: &[M::Action]) -> Value {
    json!({"initial": init, "history": hist.iter().map(|a| serde_json::to_value(a).unwrap()).collect::<Vec<_>>()})
}

/// Replay a history from a named initial state; reports a violation if one occurs.
pub fn replay<M: SeqModel>(m: &M, case: &Value, rep: &mut Report) {
    let init = case["initial"].as_str().unwrap_or("");
    let Some((_, mut s)) = m.initial().into_iter().find(|(n, _)| n == init) else {
        rep.machinery(format!("replay: unknown initial state {init}"));
        return;
    };
    let hist: Vec<M::Action> = case["history"]
        .as_array()
        .cloned()
        .unwrap_or_default()
        .into_iter()
        .map(|v| serde_json::from_value(v).expect("action"))
        .collect();
    rep.inc("executions");
    if let Err((sig, msg)) = m.invariant(&s, rep) {
        rep.violation(sig, msg, case.clone());
        return;
    }
    for (i, a) in hist.iter().enumerate() {
        rep.inc("transitions");
        match m.step(&s, a, rep) {
            Ok(n) => s = n,
            Err((sig, msg)) => {
                rep.violation(sig, format!("at step {i} ({a:?}): {msg}"), case.clone());
                return;
            }
        }
        if let Err((sig, msg)) = m.invariant(&s, rep) {
            rep.violation(sig, format!("after step {i} ({a:?}): {msg}"), case.clone());
            return;
        }
    }
    _ = rep.distinct("state", &m.canon(&s));
}

/// Bounded BFS, sharded by first-level choice. `max_states` caps the work per shard (reported).
pub fn bfs<M: SeqModel>(m: &M, depth: usize, max_states: usize, args: &Args, rep: &mut Report) {
    if let Some(p) = &args.replay {
        let v: Value = serde_json::from_str(&std::fs::read_to_string(p).expect("replay file")).expect("json");
        replay(m, &v["case"], rep);
        return;
    }
    let mut seen: HashSet<String> = HashSet::new();
    // (initial name, history, state)
    let mut frontier: VecDeque<(String, Vec<M::Action>, M::State)> = VecDeque::new();
    let mut first_level = 0usize;
    for (name, s0) in m.initial() {
        let c0 = h64(&m.canon(&s0));
        // the initial state itself is checked by shard 0 only
        if args.shard == 0 {
            rep.inc("executions");
            if seen.insert(c0.clone()) {
                _ = rep.distinct("state", &c0);
                if let Err((sig, msg)) = m.invariant(&s0, rep) {
                    rep.violation(sig, format!("initial state {name}: {msg}"), case_json::<M>(&name, &[]));
                    continue;
                }
            }
        }
        if depth == 0 {
            continue;
        }
        for a in m.actions(&s0) {
            let mine = args.mine(first_level);
            first_level += 1;
            if !mine {
                continue;
            }
            expand(m, &name, &[], &s0, &a, &mut seen, &mut frontier, rep);
        }
    }
    // determinism self-test: re-execute the first frontier history and compare canonical forms
    if let Some((name, hist, s)) = frontier.front().cloned() {
        let want = m.canon(&s);
        let (_, mut cur) = m.initial().into_iter().find(|(n, _)| *n == name).unwrap();
        let mut ok = true;
        let mut scratch = Report::default();
        for a in &hist {
            match m.step(&cur, a, &mut scratch) {
                Ok(n) => cur = n,
                Err(_) => {
                    ok = false;
                    break;
                }
            }
        }
        if !ok || m.canon(&cur) != want {
            rep.machinery(format!(
                "determinism self-test failed: re-executing {hist:?} from {name} gave a different canonical state"
            ));
        }
        rep.inc("determinism_selftests");
    }
    while let Some((name, hist, s)) = frontier.pop_front() {
        if hist.len() >= depth {
            continue;
        }
        if rep.over_budget() {
            break;
        }
        if seen.len() >= max_states {
            rep.cap(format!("state cap {max_states} per shard reached at depth {}", hist.len()));
            break;
        }
        for a in m.actions(&s) {
            expand(m, &name, &hist, &s, &a, &mut seen, &mut frontier, rep);
        }
    }
}

#[allow(clippy::too_many_arguments)]
fn expand<M: SeqModel>(
    m: &M,
    name: &str,
    hist: &[M::Action],
    s: &M::State,
    a: &M::Action,
    seen: &mut HashSet<String>,
    frontier: &mut VecDeque<(String, Vec<M::Action>, M::State)>,
    rep: &mut Report,
) {
    let mut h2 = hist.to_vec();
    h2.push(a.clone());
    rep.inc("transitions");
    rep.inc("executions");
    rep.inc(&format!("action:{}", m.action_class(a)));
    rep.max("max_depth", h2.len() as u64);
    match m.step(s, a, rep) {
        Err((sig, msg)) => {
            if !rep.has_violation(&sig) {
                // re-execute once: a violation must be reproducible before it is reported
                let mut scratch = Report::default();
                match m.step(s, a, &mut scratch) {
                    Err((sig2, _)) if sig2 == sig => {
                        rep.violation(sig, format!("at step {} ({a:?}): {msg}", hist.len()), case_json::<M>(name, &h2));
                    }
                    _ => rep.machinery(format!("flaky violation {sig} at {h2:?}: {msg}")),
                }
            } else {
                rep.inc("violations_raw");
            }
        }
        Ok(n) => {
            let c = h64(&m.canon(&n));
            if seen.insert(c.clone()) {
                _ = rep.distinct("state", &c);
                _ = rep.distinct(&format!("outcomes:{}", m.action_class(a)), &c);
                if rep.samples.len() < 4 && h2.len() >= 2 {
                    rep.sample(json!({"initial": name, "history": h2.iter().map(|a| format!("{a:?}")).collect::<Vec<_>>(), "canonical_state": m.canon(&n)}));
                }
                match m.invariant(&n, rep) {
                    Ok(()) => frontier.push_back((name.to_string(), h2, n)),
                    Err((sig, msg)) => {
                        if !rep.has_violation(&sig) {
                            let mut scratch = Report::default();
                            let again = m.step(s, a, &mut scratch).ok().map(|n2| m.invariant(&n2, &mut scratch));
                            match again {
                                Some(Err((sig2, _))) if sig2 == sig => rep.violation(
                                    sig,
                                    format!("after step {} ({a:?}): {msg}", hist.len()),
                                    case_json::<M>(name, &h2),
                                ),
                                _ => rep.machinery(format!("flaky invariant violation {sig} at {h2:?}: {msg}")),
                            }
                        } else {
                            rep.inc("violations_raw");
                        }
                    }
                }
            } else {
                rep.inc("duplicate_states");
            }
        }
    }
}
