//! Shared kit for the bounded-exhaustive exploration of rustic_core (see /verif/DESIGN.md §3).
pub mod backend;
pub mod decode;
pub mod fsx;
pub mod gate;
pub mod logical;
pub mod rep;
pub mod report;
pub mod seq;
pub mod source;
pub mod tamper;
