//! Independent decoder of the repository format: shares no code with rustic's `repofile`,
//! `packfile` or `decrypt` modules (only the AEAD primitive crate, zstd and serde_json).

use aes256ctr_poly1305aes::{
    Aes256CtrPoly1305Aes,
    aead::{Aead, KeyInit, generic_array::GenericArray},
};
use rustic_core::{FileType, Id, repofile::MasterKey};
use serde_json::Value;
use sha2::{Digest, Sha256};

use crate::backend::Store;

#[derive(Clone)]
pub struct RawKey(pub [u8; 64]);

impl RawKey {
    pub fn from_master(mk: &MasterKey) -> Self {
        let mut k = [0u8; 64];
        k[0..32].copy_from_slice(&mk.encrypt);
        k[32..48].copy_from_slice(&mk.mac.k);
        k[48..64].copy_from_slice(&mk.mac.r);
        Self(k)
    }
    pub fn open(&self, data: &[u8]) -> Result<Vec<u8>, String> {
        if data.len() < 32 {
            return Err(format!("ciphertext too short: {}", data.len()));
        }
        let cipher = Aes256CtrPoly1305Aes::new(GenericArray::from_slice(&self.0));
        cipher
            .decrypt(GenericArray::from_slice(&data[0..16]), &data[16..])
            .map_err(|_| "MAC check failed".to_string())
    }
    pub fn seal(&self, nonce: [u8; 16], plain: &[u8]) -> Vec<u8> {
        let cipher = Aes256CtrPoly1305Aes::new(GenericArray::from_slice(&self.0));
        let ct = cipher
            .encrypt(GenericArray::from_slice(&nonce), plain)
            .expect("encrypt");
        let mut out = nonce.to_vec();
        out.extend_from_slice(&ct);
        out
    }
}

pub fn sha256(data: &[u8]) -> [u8; 32] {
    let mut h = Sha256::new();
    h.update(data);
    h.finalize().into()
}

pub fn sha256_hex(data: &[u8]) -> String {
    hex::encode(sha256(data))
}

pub fn id_of(data: &[u8]) -> Id {
    sha256_hex(data).parse().unwrap()
}

pub fn hex_id(id: &Id) -> String {
    id.to_hex().as_str().to_string()
}

/// Decode an encrypted JSON repo file (config, snapshot, index)
pub fn open_json(key: &RawKey, data: &[u8]) -> Result<Value, String> {
    let plain = key.open(data)?;
    let json = match plain.first() {
        Some(b'{' | b'[') => plain,
        Some(2) => zstd::stream::decode_all(&plain[1..]).map_err(|e| format!("zstd: {e}"))?,
        other => return Err(format!("unsupported first byte {other:?}")),
    };
    serde_json::from_slice(&json).map_err(|e| format!("json: {e}"))
}

#[derive(Clone, Debug, PartialEq, Eq, PartialOrd, Ord, Hash)]
pub struct HBlob {
    /// 0 = data, 1 = tree
    pub tpe: u8,
    pub id: String,
    pub offset: u32,
    pub length: u32,
    pub uncompressed: Option<u32>,
}

impl HBlob {
    pub fn tname(&self) -> &'static str {
        if self.tpe == 1 { "tree" } else { "data" }
    }
}

/// Parse the trailer and header of a pack; returns blobs in file order.
pub fn pack_header(key: &RawKey, data: &[u8]) -> Result<Vec<HBlob>, String> {
    if data.len() < 4 + 32 {
        return Err(format!("pack too short: {}", data.len()));
    }
    let n = data.len();
    let hl = u32::from_le_bytes(data[n - 4..].try_into().unwrap()) as usize;
    if hl + 4 > n {
        return Err(format!("header length {hl} exceeds pack size {n}"));
    }
    let hdr = key.open(&data[n - 4 - hl..n - 4])?;
    let mut blobs = Vec::new();
    let mut p = 0usize;
    let mut off = 0u32;
    while p < hdr.len() {
        let t = hdr[p];
        let (elen, comp) = match t {
            0 | 1 => (37, false),
            2 | 3 => (41, true),
            _ => return Err(format!("bad header entry type {t}")),
        };
        if p + elen > hdr.len() {
            return Err("truncated header entry".into());
        }
        let length = u32::from_le_bytes(hdr[p + 1..p + 5].try_into().unwrap());
        let (uncompressed, idoff) = if comp {
            (
                Some(u32::from_le_bytes(hdr[p + 5..p + 9].try_into().unwrap())),
                p + 9,
            )
        } else {
            (None, p + 5)
        };
        let id = hex::encode(&hdr[idoff..idoff + 32]);
        blobs.push(HBlob {
            tpe: t & 1,
            id,
            offset: off,
            length,
            uncompressed,
        });
        off = off
            .checked_add(length)
            .ok_or_else(|| "offset overflow".to_string())?;
        p += elen;
    }
    if off as usize + hl + 4 != n {
        return Err(format!(
            "blobs ({off}) + header ({hl}) + 4 != pack size ({n})"
        ));
    }
    Ok(blobs)
}

/// Open one blob of a pack and verify its id
pub fn open_blob(key: &RawKey, pack: &[u8], b: &HBlob) -> Result<Vec<u8>, String> {
    let (o, l) = (b.offset as usize, b.length as usize);
    if o + l > pack.len() {
        return Err("blob range outside pack".into());
    }
    let mut plain = key.open(&pack[o..o + l])?;
    if let Some(ul) = b.uncompressed {
        plain = zstd::stream::decode_all(&plain[..]).map_err(|e| format!("zstd: {e}"))?;
        if plain.len() != ul as usize {
            return Err(format!("uncompressed length {} != {ul}", plain.len()));
        }
    }
    if sha256_hex(&plain) != b.id {
        return Err(format!("blob hash mismatch for {}", b.id));
    }
    Ok(plain)
}

/// Canonical, random-id-free description of a stored file.
#[derive(Clone, Debug, PartialEq, Eq, PartialOrd, Ord, Hash)]
pub enum Desc {
    Config,
    Key,
    /// label, root tree id
    Snapshot(String, String),
    /// sorted pack descriptors in `packs`, sorted in `packs_to_delete`
    Index(Vec<Vec<(u8, String)>>, Vec<Vec<(u8, String)>>),
    /// (type, blob id) in file order
    Pack(Vec<(u8, String)>),
    Unknown(String),
}

impl Desc {
    pub fn short(&self) -> String {
        fn bl(b: &[(u8, String)]) -> String {
            b.iter()
                .map(|(t, i)| format!("{}{}", if *t == 1 { 't' } else { 'd' }, &i[..6]))
                .collect::<Vec<_>>()
                .join(",")
        }
        match self {
            Desc::Config => "config".into(),
            Desc::Key => "key".into(),
            Desc::Snapshot(l, t) => format!("snap[{l}:{}]", &t[..6.min(t.len())]),
            Desc::Pack(b) => format!("pack[{}]", bl(b)),
            Desc::Index(p, d) => format!(
                "index[{}|del:{}]",
                p.iter().map(|b| format!("({})", bl(b))).collect::<Vec<_>>().join(""),
                d.iter().map(|b| format!("({})", bl(b))).collect::<Vec<_>>().join("")
            ),
            Desc::Unknown(s) => format!("?{s}"),
        }
    }
}

fn index_pack_desc(p: &Value) -> (String, Vec<(u8, String)>) {
    let id = p["id"].as_str().unwrap_or("").to_string();
    let blobs = p["blobs"]
        .as_array()
        .map(|a| {
            a.iter()
                .map(|b| {
                    (
                        u8::from(b["type"].as_str() == Some("tree")),
                        b["id"].as_str().unwrap_or("").to_string(),
                    )
                })
                .collect()
        })
        .unwrap_or_default();
    (id, blobs)
}

pub fn describe(key: &RawKey, tpe: FileType, data: &[u8]) -> Desc {
    match tpe {
        FileType::Config => Desc::Config,
        FileType::Key => Desc::Key,
        FileType::Snapshot => match open_json(key, data) {
            Ok(v) => Desc::Snapshot(
                v["label"].as_str().unwrap_or("").to_string(),
                v["tree"].as_str().unwrap_or("").to_string(),
            ),
            Err(e) => Desc::Unknown(e),
        },
        FileType::Index => match open_json(key, data) {
            Ok(v) => {
                let f = |k: &str| {
                    let mut x: Vec<_> = v[k]
                        .as_array()
                        .map(|a| a.iter().map(|p| index_pack_desc(p).1).collect())
                        .unwrap_or_default();
                    x.sort();
                    x
                };
                Desc::Index(f("packs"), f("packs_to_delete"))
            }
            Err(e) => Desc::Unknown(e),
        },
        FileType::Pack => match pack_header(key, data) {
            Ok(b) => Desc::Pack(b.into_iter().map(|b| (b.tpe, b.id)).collect()),
            Err(e) => Desc::Unknown(e),
        },
    }
}

/// One pack as listed by an index file
#[derive(Clone, Debug)]
pub struct IdxPack {
    pub index_id: Id,
    pub pack_id: String,
    pub marked: bool,
    pub time: Option<String>,
    pub size: Option<u64>,
    pub blobs: Vec<HBlob>,
}

pub fn index_packs(key: &RawKey, store: &Store) -> Result<Vec<IdxPack>, String> {
    let mut out = Vec::new();
    for (id, _) in store.list(FileType::Index) {
        let v = open_json(key, store.get(FileType::Index, &id).unwrap())
            .map_err(|e| format!("index {}: {e}", hex_id(&id)))?;
        for (k, marked) in [("packs", false), ("packs_to_delete", true)] {
            for p in v[k].as_array().cloned().unwrap_or_default() {
                let blobs = p["blobs"]
                    .as_array()
                    .cloned()
                    .unwrap_or_default()
                    .iter()
                    .map(|b| HBlob {
                        tpe: u8::from(b["type"].as_str() == Some("tree")),
                        id: b["id"].as_str().unwrap_or("").to_string(),
                        offset: b["offset"].as_u64().unwrap_or(0) as u32,
                        length: b["length"].as_u64().unwrap_or(0) as u32,
                        uncompressed: b["uncompressed_length"].as_u64().map(|x| x as u32),
                    })
                    .collect();
                out.push(IdxPack {
                    index_id: id,
                    pack_id: p["id"].as_str().unwrap_or("").to_string(),
                    marked,
                    time: p["time"].as_str().map(ToString::to_string),
                    size: p["size"].as_u64(),
                    blobs,
                });
            }
        }
    }
    Ok(out)
}

/// Canonical abstraction of a whole store: random ids never enter it.
/// (snapshots as (label, tree); packs as blob lists with status; index content as multiset)
pub fn canon_store(key: &RawKey, store: &Store) -> Vec<String> {
    canon_store_at(key, store, None)
}

fn age_bucket(time: &Option<String>, now_s: Option<i64>) -> &'static str {
    let (Some(t), Some(now)) = (time, now_s) else { return "" };
    let Ok(ts) = t.parse::<jiff::Timestamp>() else { return "@?" };
    let age = now - ts.as_second();
    // buckets separated by the keep-pack / keep-delete values the explorers use (90 min, 23 h)
    if age < 90 * 60 {
        "@young"
    } else if age < 23 * 3600 {
        "@mid"
    } else {
        "@old"
    }
}

/// like `canon_store`, additionally tagging every indexed pack with the age bucket of its index
/// time relative to `now_s` (seconds since epoch)
pub fn canon_store_at(key: &RawKey, store: &Store, now_s: Option<i64>) -> Vec<String> {
    let mut out = Vec::new();
    let idx = index_packs(key, store).unwrap_or_default();
    for (tpe, id, data) in &store.files {
        match tpe {
            FileType::Pack => {
                let d = describe(key, *tpe, data);
                let h = hex_id(id);
                let listed: Vec<&IdxPack> = idx.iter().filter(|p| p.pack_id == h).collect();
                let status = if listed.is_empty() {
                    "unindexed".to_string()
                } else {
                    let mut s: Vec<String> = listed
                        .iter()
                        .map(|p| format!("{}{}", if p.marked { "marked" } else { "indexed" }, age_bucket(&p.time, now_s)))
                        .collect();
                    s.sort_unstable();
                    s.join("+")
                };
                out.push(format!("{} {}", d.short(), status));
            }
            FileType::Index => {
                out.push(describe(key, *tpe, data).short());
            }
            FileType::Snapshot => out.push(describe(key, *tpe, data).short()),
            FileType::Config => out.push(format!("config#{}", sha256_hex(&key.open(data).unwrap_or_default()))),
            FileType::Key => out.push("key".into()),
        }
    }
    // index entries pointing to missing packs
    for p in &idx {
        if let Ok(pid) = p.pack_id.parse::<Id>() {
            if store.get(FileType::Pack, &pid).is_none() {
                out.push(format!(
                    "dangling-index-entry[{}]{}",
                    p.blobs.iter().map(|b| format!("{}{}", b.tname(), &b.id[..6])).collect::<Vec<_>>().join(","),
                    if p.marked { " marked" } else { "" }
                ));
            }
        }
    }
    out.sort();
    out
}

/// Fully independent reachability check: every snapshot's trees and blobs are present in a
/// pack that an index lists as not marked, decrypt and hash correctly.
/// Returns Err(description) for the first problem.
pub fn independent_read(
    key: &RawKey,
    store: &Store,
) -> Result<std::collections::BTreeMap<String, crate::logical::LTree>, String> {
    use std::collections::BTreeMap;
    let idx = index_packs(key, store)?;
    // (tpe,id) -> list of (pack id, blob)
    let mut map: BTreeMap<(u8, String), Vec<(String, HBlob)>> = BTreeMap::new();
    for p in idx.iter().filter(|p| !p.marked) {
        for b in &p.blobs {
            map.entry((b.tpe, b.id.clone()))
                .or_default()
                .push((p.pack_id.clone(), b.clone()));
        }
    }
    let read_blob = |tpe: u8, id: &str| -> Result<Vec<u8>, String> {
        let locs = map
            .get(&(tpe, id.to_string()))
            .ok_or_else(|| format!("blob {tpe}:{} not in any unmarked index entry", &id[..8.min(id.len())]))?;
        let mut last = String::new();
        // every listed copy must be good (an index may hand out any of them)
        let mut res = None;
        for (pid, b) in locs {
            let pack = store
                .get(FileType::Pack, &pid.parse::<Id>().map_err(|_| "bad pack id")?)
                .ok_or_else(|| format!("pack {} missing", &pid[..8]))?;
            match open_blob(key, pack, b) {
                Ok(d) => res = Some(d),
                Err(e) => {
                    last = e;
                    return Err(format!("blob {tpe}:{} in pack {}: {last}", &id[..8], &pid[..8]));
                }
            }
        }
        res.ok_or(last)
    };
    let mut out = BTreeMap::new();
    for (sid, _) in store.list(FileType::Snapshot) {
        let v = open_json(key, store.get(FileType::Snapshot, &sid).unwrap())
            .map_err(|e| format!("snapshot {}: {e}", hex_id(&sid)))?;
        let label = v["label"].as_str().unwrap_or("").to_string();
        let root = v["tree"].as_str().unwrap_or("").to_string();
        let mut lt = crate::logical::LTree::new();
        // iterative DFS
        let mut stack = vec![(Vec::<u8>::new(), root)];
        while let Some((prefix, tid)) = stack.pop() {
            let t = read_blob(1, &tid).map_err(|e| format!("snapshot {label}: tree: {e}"))?;
            let tv: Value = serde_json::from_slice(&t).map_err(|e| format!("tree json: {e}"))?;
            for n in tv["nodes"].as_array().cloned().unwrap_or_default() {
                let name = n["name"].as_str().unwrap_or("").to_string();
                let mut path = prefix.clone();
                if !path.is_empty() {
                    path.push(b'/');
                }
                path.extend_from_slice(&crate::logical::unescape(&name));
                let kind = n["type"].as_str().unwrap_or("").to_string();
                let mut ln = crate::logical::LNode {
                    kind: kind.clone(),
                    mode: n["mode"].as_u64().map(|m| crate::source::from_go_mode(m as u32)),
                    mtime: n["mtime"].as_str().and_then(|s| s.parse::<jiff::Timestamp>().ok()).map(|t| t.as_nanosecond()),
                    ..Default::default()
                };
                match kind.as_str() {
                    "dir" => {
                        let st = n["subtree"].as_str().ok_or("dir without subtree")?.to_string();
                        stack.push((path.clone(), st));
                    }
                    "file" => {
                        let mut h = Sha256::new();
                        let mut size = 0u64;
                        for c in n["content"].as_array().cloned().unwrap_or_default() {
                            let cid = c.as_str().unwrap_or("");
                            let d = read_blob(0, cid)
                                .map_err(|e| format!("snapshot {label}: {}: {e}", String::from_utf8_lossy(&path)))?;
                            size += d.len() as u64;
                            h.update(&d);
                        }
                        ln.size = size;
                        ln.sha = Some(hex::encode(h.finalize()));
                    }
                    "symlink" => {
                        // non-UTF-8 targets are stored base64 encoded in `linktarget_raw`
                        ln.target = Some(match n["linktarget_raw"].as_str() {
                            Some(raw) => b64_decode(raw),
                            None => n["linktarget"].as_str().unwrap_or("").as_bytes().to_vec(),
                        });
                    }
                    _ => {}
                }
                _ = lt.insert(path, ln);
            }
        }
        _ = out.insert(label, lt);
    }
    Ok(out)
}

/// Independent pack encoder (uncompressed entries): returns the pack bytes and its blobs.
/// `nonce_seed` makes nonces distinct and deterministic.
pub fn build_pack(key: &RawKey, blobs: &[(u8, Vec<u8>)], nonce_seed: u64) -> (Vec<u8>, Vec<HBlob>) {
    let mut out = Vec::new();
    let mut hb = Vec::new();
    let mut hdr = Vec::new();
    for (i, (tpe, plain)) in blobs.iter().enumerate() {
        let mut nonce = [0u8; 16];
        nonce[..8].copy_from_slice(&nonce_seed.to_le_bytes());
        nonce[8..].copy_from_slice(&(i as u64 + 1).to_le_bytes());
        let ct = key.seal(nonce, plain);
        let id = sha256(plain);
        hb.push(HBlob {
            tpe: *tpe,
            id: hex::encode(id),
            offset: out.len() as u32,
            length: ct.len() as u32,
            uncompressed: None,
        });
        hdr.push(*tpe);
        hdr.extend_from_slice(&(ct.len() as u32).to_le_bytes());
        hdr.extend_from_slice(&id);
        out.extend_from_slice(&ct);
    }
    let mut nonce = [0xeeu8; 16];
    nonce[..8].copy_from_slice(&nonce_seed.to_le_bytes());
    let h = key.seal(nonce, &hdr);
    out.extend_from_slice(&h);
    out.extend_from_slice(&(h.len() as u32).to_le_bytes());
    (out, hb)
}

/// Independent encoder of an (uncompressed) JSON repo file
pub fn seal_json(key: &RawKey, v: &Value, nonce_seed: u64) -> Vec<u8> {
    let mut nonce = [0x77u8; 16];
    nonce[..8].copy_from_slice(&nonce_seed.to_le_bytes());
    key.seal(nonce, &serde_json::to_vec(v).expect("json"))
}

/// minimal standard-alphabet base64 decoder (padding optional)
pub fn b64_decode(s: &str) -> Vec<u8> {
    let val = |c: u8| -> Option<u32> {
        match c {
            b'A'..=b'Z' => Some(u32::from(c - b'A')),
            b'a'..=b'z' => Some(u32::from(c - b'a') + 26),
            b'0'..=b'9' => Some(u32::from(c - b'0') + 52),
            b'+' => Some(62),
            b'/' => Some(63),
            _ => None,
        }
    };
    let mut out = Vec::new();
    let mut acc = 0u32;
    let mut bits = 0;
    for c in s.bytes() {
        let Some(v) = val(c) else { continue };
        acc = (acc << 6) | v;
        bits += 6;
        if bits >= 8 {
            bits -= 8;
            out.push((acc >> bits) as u8);
            acc &= (1 << bits) - 1;
        }
    }
    out
}
