//! In-memory storage world: exact map stores with recording, fault injection, cold mode.
//!
//! A `World` owns one or more `Store`s (e.g. cold = 0, hot = 1); `MemBackend` is a handle
//! (world, tag) implementing rustic's `WriteBackend`. Every call is logged; after every mutating
//! call the complete set of stores can be snapshotted (O(#files) refcount clones), which yields
//! every crash prefix of the observed linearisation from a single execution.

use std::sync::{Arc, Mutex};

use bytes::Bytes;
use rustic_core::{
    BytesList, ErrorKind, FileType, Id, ReadBackend, RusticError, RusticResult, WriteBackend,
};

pub fn ft_ord(t: FileType) -> u8 {
    match t {
        FileType::Config => 0,
        FileType::Key => 1,
        FileType::Snapshot => 2,
        FileType::Index => 3,
        FileType::Pack => 4,
    }
}

pub fn ft_name(t: FileType) -> &'static str {
    match t {
        FileType::Config => "config",
        FileType::Key => "key",
        FileType::Snapshot => "snapshot",
        FileType::Index => "index",
        FileType::Pack => "pack",
    }
}

pub const ALL_TYPES: [FileType; 5] = [
    FileType::Config,
    FileType::Key,
    FileType::Snapshot,
    FileType::Index,
    FileType::Pack,
];

/// An exact map (type, id) -> bytes that remembers insertion order.
#[derive(Clone, Default, Debug)]
pub struct Store {
    pub files: Vec<(FileType, Id, Bytes)>,
}

impl Store {
    fn norm(tpe: FileType, id: &Id) -> Id {
        if tpe == FileType::Config {
            Id::default()
        } else {
            *id
        }
    }
    pub fn pos(&self, tpe: FileType, id: &Id) -> Option<usize> {
        let id = Self::norm(tpe, id);
        self.files.iter().position(|(t, i, _)| *t == tpe && *i == id)
    }
    pub fn get(&self, tpe: FileType, id: &Id) -> Option<&Bytes> {
        self.pos(tpe, id).map(|p| &self.files[p].2)
    }
    pub fn put(&mut self, tpe: FileType, id: &Id, data: Bytes) {
        let id = Self::norm(tpe, id);
        match self.pos(tpe, &id) {
            Some(p) => self.files[p].2 = data,
            None => self.files.push((tpe, id, data)),
        }
    }
    pub fn del(&mut self, tpe: FileType, id: &Id) -> bool {
        match self.pos(tpe, id) {
            Some(p) => {
                _ = self.files.remove(p);
                true
            }
            None => false,
        }
    }
    pub fn list(&self, tpe: FileType) -> Vec<(Id, u32)> {
        self.files
            .iter()
            .filter(|(t, _, _)| *t == tpe)
            .map(|(_, i, d)| (*i, d.len() as u32))
            .collect()
    }
    pub fn ids(&self, tpe: FileType) -> Vec<Id> {
        self.list(tpe).into_iter().map(|(i, _)| i).collect()
    }
    pub fn len(&self) -> usize {
        self.files.len()
    }
    pub fn is_empty(&self) -> bool {
        self.files.is_empty()
    }
    /// order-independent equality
    pub fn same_content(&self, other: &Store) -> bool {
        self.files.len() == other.files.len()
            && self
                .files
                .iter()
                .all(|(t, i, d)| other.get(*t, i).is_some_and(|o| o == d))
    }
}

#[derive(Clone, Copy, Debug, PartialEq, Eq, PartialOrd, Ord, Hash, serde::Serialize, serde::Deserialize)]
pub enum OpKind {
    Create,
    List,
    ReadFull,
    ReadPartial,
    Write,
    Remove,
    WarmUp,
}

impl OpKind {
    pub fn is_mut(self) -> bool {
        matches!(self, OpKind::Write | OpKind::Remove)
    }
    pub fn name(self) -> &'static str {
        match self {
            OpKind::Create => "create",
            OpKind::List => "list",
            OpKind::ReadFull => "read",
            OpKind::ReadPartial => "readp",
            OpKind::Write => "write",
            OpKind::Remove => "remove",
            OpKind::WarmUp => "warmup",
        }
    }
}

#[derive(Clone, Debug)]
pub struct OpRec {
    pub seq: usize,
    pub tag: usize,
    pub kind: OpKind,
    pub tpe: FileType,
    pub id: Id,
    pub off: u32,
    pub len: u32,
    pub ok: bool,
    /// index among the mutating calls (only for mutating calls)
    pub mut_idx: Option<usize>,
}

#[derive(Default)]
pub struct World {
    pub stores: Vec<Store>,
    pub log: Vec<OpRec>,
    /// if set, a snapshot of all stores is pushed after every effective mutating call
    pub record_states: bool,
    pub states: Vec<Vec<Store>>,
    /// fail the mutating call with this index (it has no effect and returns Err)
    pub fail_mut_at: Option<usize>,
    /// after this many mutating calls took effect, all later ones fail without effect (crash)
    pub crash_after: Option<usize>,
    pub mut_count: usize,
    /// per store: cold mode (reads of packs fail unless warmed up)
    pub cold: Vec<bool>,
    pub warmed: Vec<Vec<(FileType, Id)>>,
    /// per store: report needs_warm_up
    pub needs_warm_up: Vec<bool>,
    /// reverse listing order (environment deviation)
    pub list_reversed: bool,
    /// violations of the cold discipline: read of a non-warmed pack from a cold store
    pub cold_violations: Vec<OpRec>,
    /// reject every mutating call (used to assert read-only behaviour)
    pub logging: bool,
}

pub type SharedWorld = Arc<Mutex<World>>;

impl World {
    pub fn new(n: usize) -> Self {
        Self {
            stores: vec![Store::default(); n],
            cold: vec![false; n],
            warmed: vec![Vec::new(); n],
            needs_warm_up: vec![false; n],
            logging: true,
            ..Default::default()
        }
    }
    pub fn from_stores(stores: Vec<Store>) -> Self {
        let n = stores.len();
        let mut w = Self::new(n);
        w.stores = stores;
        w
    }
    pub fn shared(self) -> SharedWorld {
        Arc::new(Mutex::new(self))
    }
    pub fn reset_log(&mut self) {
        self.log.clear();
        self.states.clear();
        self.mut_count = 0;
        self.cold_violations.clear();
        for w in &mut self.warmed {
            w.clear();
        }
    }
    pub fn mut_ops(&self) -> Vec<&OpRec> {
        self.log.iter().filter(|o| o.kind.is_mut()).collect()
    }
}

#[derive(Clone)]
pub struct MemBackend {
    pub world: SharedWorld,
    pub tag: usize,
}

impl std::fmt::Debug for MemBackend {
    fn fmt(&self, f: &mut std::fmt::Formatter<'_>) -> std::fmt::Result {
        write!(f, "MemBackend#{}", self.tag)
    }
}

fn be_err(msg: &'static str) -> Box<RusticError> {
    RusticError::new(ErrorKind::Backend, msg)
}

impl MemBackend {
    pub fn new(world: &SharedWorld, tag: usize) -> Self {
        Self {
            world: world.clone(),
            tag,
        }
    }
    pub fn arc(world: &SharedWorld, tag: usize) -> Arc<dyn WriteBackend> {
        Arc::new(Self::new(world, tag))
    }
    fn rec(
        &self,
        w: &mut World,
        kind: OpKind,
        tpe: FileType,
        id: &Id,
        off: u32,
        len: u32,
        ok: bool,
        mut_idx: Option<usize>,
    ) {
        if !w.logging {
            return;
        }
        let seq = w.log.len();
        w.log.push(OpRec {
            seq,
            tag: self.tag,
            kind,
            tpe,
            id: *id,
            off,
            len,
            ok,
            mut_idx,
        });
    }
    fn cold_check(&self, w: &mut World, kind: OpKind, tpe: FileType, id: &Id) -> bool {
        if w.cold[self.tag] && tpe == FileType::Pack && !w.warmed[self.tag].contains(&(tpe, *id)) {
            let seq = w.log.len();
            w.cold_violations.push(OpRec {
                seq,
                tag: self.tag,
                kind,
                tpe,
                id: *id,
                off: 0,
                len: 0,
                ok: false,
                mut_idx: None,
            });
            return false;
        }
        true
    }
}

impl ReadBackend for MemBackend {
    fn location(&self) -> String {
        format!("mem:{}", self.tag)
    }

    fn list_with_size(&self, tpe: FileType) -> RusticResult<Vec<(Id, u32)>> {
        let mut w = self.world.lock().unwrap();
        let mut l = w.stores[self.tag].list(tpe);
        if w.list_reversed {
            l.reverse();
        }
        self.rec(&mut w, OpKind::List, tpe, &Id::default(), 0, 0, true, None);
        Ok(l)
    }

    fn read_full(&self, tpe: FileType, id: &Id) -> RusticResult<Bytes> {
        let mut w = self.world.lock().unwrap();
        if !self.cold_check(&mut w, OpKind::ReadFull, tpe, id) {
            self.rec(&mut w, OpKind::ReadFull, tpe, id, 0, 0, false, None);
            return Err(be_err("cold store: file was not warmed up"));
        }
        let r = w.stores[self.tag].get(tpe, id).cloned();
        self.rec(&mut w, OpKind::ReadFull, tpe, id, 0, 0, r.is_some(), None);
        r.ok_or_else(|| be_err("file not found"))
    }

    fn read_partial(
        &self,
        tpe: FileType,
        id: &Id,
        _cacheable: bool,
        offset: u32,
        length: u32,
    ) -> RusticResult<Bytes> {
        let mut w = self.world.lock().unwrap();
        if !self.cold_check(&mut w, OpKind::ReadPartial, tpe, id) {
            self.rec(&mut w, OpKind::ReadPartial, tpe, id, offset, length, false, None);
            return Err(be_err("cold store: file was not warmed up"));
        }
        let r = w.stores[self.tag].get(tpe, id).and_then(|d| {
            let (o, l) = (offset as usize, length as usize);
            (o + l <= d.len()).then(|| d.slice(o..o + l))
        });
        self.rec(&mut w, OpKind::ReadPartial, tpe, id, offset, length, r.is_some(), None);
        r.ok_or_else(|| be_err("file not found or range out of bounds"))
    }

    fn warmup_path(&self, tpe: FileType, id: &Id) -> String {
        format!("mem:{}/{}/{}", self.tag, ft_name(tpe), id.to_hex().as_str())
    }

    fn needs_warm_up(&self) -> bool {
        self.world.lock().unwrap().needs_warm_up[self.tag]
    }

    fn warm_up(&self, tpe: FileType, id: &Id) -> RusticResult<()> {
        let mut w = self.world.lock().unwrap();
        w.warmed[self.tag].push((tpe, *id));
        self.rec(&mut w, OpKind::WarmUp, tpe, id, 0, 0, true, None);
        Ok(())
    }
}

impl WriteBackend for MemBackend {
    fn create(&self) -> RusticResult<()> {
        let mut w = self.world.lock().unwrap();
        self.rec(&mut w, OpKind::Create, FileType::Config, &Id::default(), 0, 0, true, None);
        Ok(())
    }

    fn write_bytes(
        &self,
        tpe: FileType,
        id: &Id,
        _cacheable: bool,
        content: BytesList,
    ) -> RusticResult<()> {
        let mut w = self.world.lock().unwrap();
        let idx = w.mut_count;
        w.mut_count += 1;
        let mut data = Vec::with_capacity(content.size());
        for b in content.slice() {
            data.extend_from_slice(b);
        }
        let fail = w.fail_mut_at == Some(idx) || w.crash_after.is_some_and(|c| idx >= c);
        self.rec(&mut w, OpKind::Write, tpe, id, 0, data.len() as u32, !fail, Some(idx));
        if fail {
            return Err(be_err("injected write failure"));
        }
        w.stores[self.tag].put(tpe, id, data.into());
        if w.record_states {
            let s = w.stores.clone();
            w.states.push(s);
        }
        Ok(())
    }

    fn remove(&self, tpe: FileType, id: &Id, _cacheable: bool) -> RusticResult<()> {
        let mut w = self.world.lock().unwrap();
        let idx = w.mut_count;
        w.mut_count += 1;
        let fail = w.fail_mut_at == Some(idx) || w.crash_after.is_some_and(|c| idx >= c);
        if fail {
            self.rec(&mut w, OpKind::Remove, tpe, id, 0, 0, false, Some(idx));
            return Err(be_err("injected remove failure"));
        }
        let ok = w.stores[self.tag].del(tpe, id);
        self.rec(&mut w, OpKind::Remove, tpe, id, 0, 0, ok, Some(idx));
        if w.record_states {
            let s = w.stores.clone();
            w.states.push(s);
        }
        if ok {
            Ok(())
        } else {
            Err(be_err("remove: file not found"))
        }
    }
}
