//! Worker-side report: what a shard explored. The python driver merges shard reports into the
//! evidence file and decides the exit code.

use std::{
    collections::{BTreeMap, BTreeSet},
    hash::{Hash, Hasher},
    path::PathBuf,
    time::Instant,
};

use serde::{Deserialize, Serialize};
use serde_json::Value;

#[derive(Clone, Copy, Debug, PartialEq, Eq)]
pub enum Tier {
    Quick,
    Thorough,
}

#[derive(Clone, Debug)]
pub struct Args {
    pub prop: String,
    pub tier: Tier,
    pub shard: usize,
    pub nshards: usize,
    pub out: Option<PathBuf>,
    pub replay: Option<PathBuf>,
    pub seed: u64,
    pub extra: Vec<String>,
}

impl Args {
    pub fn parse() -> Self {
        let mut a = Self {
            prop: String::new(),
            tier: Tier::Quick,
            shard: 0,
            nshards: 1,
            out: None,
            replay: None,
            seed: 0,
            extra: Vec::new(),
        };
        let mut it = std::env::args().skip(1);
        while let Some(x) = it.next() {
            match x.as_str() {
                "--tier" => {
                    a.tier = if it.next().as_deref() == Some("thorough") {
                        Tier::Thorough
                    } else {
                        Tier::Quick
                    }
                }
                "--shard" => {
                    let s = it.next().unwrap_or_default();
                    let (i, n) = s.split_once('/').unwrap_or(("0", "1"));
                    a.shard = i.parse().unwrap_or(0);
                    a.nshards = n.parse().unwrap_or(1);
                }
                "--out" => a.out = it.next().map(PathBuf::from),
                "--replay" => a.replay = it.next().map(PathBuf::from),
                "--seed" => a.seed = it.next().and_then(|s| s.parse().ok()).unwrap_or(0),
                _ if a.prop.is_empty() => a.prop = x,
                _ => a.extra.push(x),
            }
        }
        a
    }
    pub fn quick(&self) -> bool {
        self.tier == Tier::Quick
    }
    /// does case number `i` belong to this shard?
    pub fn mine(&self, i: usize) -> bool {
        i % self.nshards == self.shard
    }
}

#[derive(Clone, Debug, Serialize, Deserialize)]
pub struct Violation {
    /// stable class of the violation (never contains random ids); matched against known findings
    pub signature: String,
    pub message: String,
    /// the minimal case, re-executable with `--replay`
    pub case: Value,
}

#[derive(Debug, Serialize, Deserialize, Default)]
pub struct Report {
    pub property: String,
    pub tier: String,
    pub shard: usize,
    pub nshards: usize,
    /// summed over shards
    pub counts: BTreeMap<String, u64>,
    /// max over shards
    pub maxima: BTreeMap<String, u64>,
    /// union over shards (64-bit hashes of distinct items per class)
    pub distinct: BTreeMap<String, BTreeSet<String>>,
    pub samples: Vec<Value>,
    pub violations: Vec<Violation>,
    pub notes: Vec<String>,
    /// reasons why this run may not be called exhaustive
    pub caps_hit: Vec<String>,
    /// machinery errors (flaky replay, vacuity, build) - never verdicts
    pub machinery_errors: Vec<String>,
    pub wall_s: f64,
    /// free-form metadata: rule, bounds, assumptions
    pub meta: BTreeMap<String, Value>,
    #[serde(skip)]
    pub start: Option<Instant>,
    #[serde(skip)]
    pub max_violations: usize,
}

pub fn h64<T: Hash + ?Sized>(t: &T) -> String {
    let mut h = std::collections::hash_map::DefaultHasher::new();
    t.hash(&mut h);
    format!("{:016x}", h.finish())
}

impl Report {
    pub fn new(args: &Args) -> Self {
        Self {
            property: args.prop.to_uppercase(),
            tier: if args.quick() { "quick" } else { "thorough" }.into(),
            shard: args.shard,
            nshards: args.nshards,
            start: Some(Instant::now()),
            max_violations: 40,
            ..Default::default()
        }
    }
    pub fn count(&mut self, key: &str, n: u64) {
        *self.counts.entry(key.to_string()).or_default() += n;
    }
    pub fn inc(&mut self, key: &str) {
        self.count(key, 1);
    }
    pub fn get(&self, key: &str) -> u64 {
        self.counts.get(key).copied().unwrap_or(0)
    }
    pub fn max(&mut self, key: &str, v: u64) {
        let e = self.maxima.entry(key.to_string()).or_default();
        *e = (*e).max(v);
    }
    /// record a distinct item of a class; returns true if new (in this shard)
    pub fn distinct<T: Hash + ?Sized>(&mut self, class: &str, item: &T) -> bool {
        self.distinct
            .entry(class.to_string())
            .or_default()
            .insert(h64(item))
    }
    pub fn sample(&mut self, v: Value) {
        if self.samples.len() < 6 {
            self.samples.push(v);
        }
    }
    pub fn note(&mut self, s: impl Into<String>) {
        let s = s.into();
        if !self.notes.contains(&s) && self.notes.len() < 50 {
            self.notes.push(s);
        }
    }
    pub fn cap(&mut self, s: impl Into<String>) {
        let s = s.into();
        if !self.caps_hit.contains(&s) {
            self.caps_hit.push(s);
        }
    }
    pub fn machinery(&mut self, s: impl Into<String>) {
        self.machinery_errors.push(s.into());
    }
    pub fn violation(&mut self, signature: impl Into<String>, message: impl Into<String>, case: Value) {
        let signature = signature.into();
        self.inc("violations_raw");
        // keep the first (= minimal, cases are ordered simplest first) witness per signature
        if self.violations.iter().any(|v| v.signature == signature) {
            return;
        }
        if self.violations.len() < self.max_violations {
            self.violations.push(Violation {
                signature,
                message: message.into(),
                case,
            });
        }
    }
    pub fn set_meta(&mut self, key: &str, v: Value) {
        _ = self.meta.insert(key.to_string(), v);
    }
    /// is a witness for this signature already recorded? (lets callers skip building the case)
    pub fn has_violation(&self, signature: &str) -> bool {
        self.violations.iter().any(|v| v.signature == signature)
    }
    /// wall-clock budget of this worker (env VERIF_WALL_CAP, seconds); engines poll this in their
    /// outermost loop, stop early and report the cap (the run is then not exhaustive)
    pub fn over_budget(&mut self) -> bool {
        let cap: f64 = std::env::var("VERIF_WALL_CAP").ok().and_then(|s| s.parse().ok()).unwrap_or(f64::MAX);
        if self.elapsed() > cap {
            self.cap(format!("wall-clock cap of {cap} s per worker reached; the remaining part of the enumeration was not explored"));
            true
        } else {
            false
        }
    }
    pub fn elapsed(&self) -> f64 {
        self.start.map_or(0.0, |s| s.elapsed().as_secs_f64())
    }
    pub fn finish(mut self, args: &Args) {
        self.wall_s = self.elapsed();
        let s = serde_json::to_string(&self).expect("report json");
        match &args.out {
            Some(p) => std::fs::write(p, s).expect("write report"),
            None => {
                // human readable summary on stdout
                println!("counts: {:?}", self.counts);
                println!("maxima: {:?}", self.maxima);
                println!(
                    "distinct: {:?}",
                    self.distinct.iter().map(|(k, v)| (k, v.len())).collect::<Vec<_>>()
                );
                for n in &self.notes {
                    println!("note: {n}");
                }
                for c in &self.caps_hit {
                    println!("cap: {c}");
                }
                for m in &self.machinery_errors {
                    println!("MACHINERY: {m}");
                }
                for v in &self.violations {
                    println!("violation [{}]: {}\n   case: {}", v.signature, v.message, v.case);
                }
                println!("wall_s: {:.2}", self.wall_s);
            }
        }
    }
}
