//! In-memory source trees and a `ReadSource` over them (fully deterministic nodes, scripted
//! reader fragmentation).

use std::{
    collections::BTreeMap,
    ffi::OsStr,
    io::{self, Read},
    os::unix::ffi::OsStrExt,
    path::PathBuf,
    sync::Arc,
};

use bytes::Bytes;
use rustic_core::{
    ReadSource, ReadSourceEntry, RusticResult,
    repofile::{Metadata, Node, NodeType},
};
use serde::{Deserialize, Serialize};

#[derive(Clone, Debug, PartialEq, Eq, Serialize, Deserialize, Default)]
pub struct Meta {
    pub mode: Option<u32>,
    /// mtime in ns since epoch
    pub mtime: Option<i128>,
    pub ctime: Option<i128>,
    pub inode: u64,
    pub links: u64,
    pub uid: Option<u32>,
    pub gid: Option<u32>,
    /// device id (hardlink detection needs a non-zero device and inode and links > 1)
    #[serde(default)]
    pub dev: u64,
    /// access time in ns since epoch (None = not recorded; restore then uses the mtime)
    #[serde(default)]
    pub atime: Option<i128>,
}

impl Meta {
    pub fn file(mtime_s: i64) -> Self {
        Self {
            mode: Some(0o644),
            mtime: Some(i128::from(mtime_s) * 1_000_000_000),
            ctime: Some(i128::from(mtime_s) * 1_000_000_000),
            ..Default::default()
        }
    }
    pub fn dir(mtime_s: i64) -> Self {
        Self {
            mode: Some(0o755),
            ..Self::file(mtime_s)
        }
    }
}

#[derive(Clone, Debug, PartialEq, Eq)]
pub enum Ent {
    Dir(BTreeMap<Vec<u8>, Entry>),
    File(Bytes),
    Symlink(Vec<u8>),
}

#[derive(Clone, Debug, PartialEq, Eq)]
pub struct Entry {
    pub ent: Ent,
    pub meta: Meta,
}

impl Entry {
    pub fn file(data: impl Into<Bytes>, mtime_s: i64) -> Self {
        Self {
            ent: Ent::File(data.into()),
            meta: Meta::file(mtime_s),
        }
    }
    pub fn dir(mtime_s: i64) -> Self {
        Self {
            ent: Ent::Dir(BTreeMap::new()),
            meta: Meta::dir(mtime_s),
        }
    }
    pub fn symlink(target: impl Into<Vec<u8>>, mtime_s: i64) -> Self {
        Self {
            ent: Ent::Symlink(target.into()),
            meta: Meta {
                mode: Some(0o777),
                ..Meta::file(mtime_s)
            },
        }
    }
    pub fn children(&self) -> Option<&BTreeMap<Vec<u8>, Entry>> {
        match &self.ent {
            Ent::Dir(m) => Some(m),
            _ => None,
        }
    }
    pub fn children_mut(&mut self) -> Option<&mut BTreeMap<Vec<u8>, Entry>> {
        match &mut self.ent {
            Ent::Dir(m) => Some(m),
            _ => None,
        }
    }
    /// insert `e` at the slash separated path, creating intermediate dirs
    pub fn insert(&mut self, path: &str, e: Entry) {
        let mut cur = self;
        let comps: Vec<&str> = path.split('/').filter(|c| !c.is_empty()).collect();
        for (i, c) in comps.iter().enumerate() {
            let m = cur.children_mut().expect("insert into non-dir");
            if i + 1 == comps.len() {
                _ = m.insert(c.as_bytes().to_vec(), e);
                return;
            }
            cur = m
                .entry(c.as_bytes().to_vec())
                .or_insert_with(|| Entry::dir(1_600_000_000));
        }
    }
    pub fn remove(&mut self, path: &str) -> Option<Entry> {
        let mut cur = self;
        let comps: Vec<&str> = path.split('/').filter(|c| !c.is_empty()).collect();
        for (i, c) in comps.iter().enumerate() {
            let m = cur.children_mut()?;
            if i + 1 == comps.len() {
                return m.remove(c.as_bytes());
            }
            cur = m.get_mut(c.as_bytes())?;
        }
        None
    }
    pub fn get(&self, path: &str) -> Option<&Entry> {
        let mut cur = self;
        for c in path.split('/').filter(|c| !c.is_empty()) {
            cur = cur.children()?.get(c.as_bytes())?;
        }
        Some(cur)
    }
    pub fn get_mut(&mut self, path: &str) -> Option<&mut Entry> {
        let mut cur = self;
        for c in path.split('/').filter(|c| !c.is_empty()) {
            cur = cur.children_mut()?.get_mut(c.as_bytes())?;
        }
        Some(cur)
    }
    /// walk in the order a sorted directory walk yields (pre-order, names sorted bytewise)
    pub fn walk(&self, prefix: &[u8], out: &mut Vec<(Vec<u8>, Entry)>) {
        if let Ent::Dir(m) = &self.ent {
            for (name, e) in m {
                let mut p = prefix.to_vec();
                if !p.is_empty() {
                    p.push(b'/');
                }
                p.extend_from_slice(name);
                out.push((p.clone(), e.clone()));
                e.walk(&p, out);
            }
        }
    }
}

/// How a reader fragments what it returns.
#[derive(Clone, Debug, PartialEq, Eq, Serialize, Deserialize, Default)]
pub enum Frag {
    #[default]
    Full,
    /// at most n bytes per call
    Stride(usize),
    /// call i (0-based) returns at most r bytes; all others full
    ShortAt(usize, usize),
    /// call i returns ErrorKind::Interrupted once
    InterruptAt(usize),
    /// two deviations
    Two(Box<Frag>, Box<Frag>),
}

pub struct ScriptReader {
    data: Bytes,
    pos: usize,
    call: usize,
    frag: Frag,
    /// counts read calls (shared with the creator)
    pub counter: Option<Arc<std::sync::atomic::AtomicUsize>>,
}

impl ScriptReader {
    pub fn new(data: Bytes, frag: Frag) -> Self {
        Self {
            data,
            pos: 0,
            call: 0,
            frag,
            counter: None,
        }
    }
    pub fn counted(mut self, c: &Arc<std::sync::atomic::AtomicUsize>) -> Self {
        self.counter = Some(c.clone());
        self
    }
}

fn frag_limit(frag: &Frag, call: usize, want: usize) -> Result<usize, ()> {
    match frag {
        Frag::Full => Ok(want),
        Frag::Stride(n) => Ok(want.min(*n)),
        Frag::ShortAt(i, r) => Ok(if call == *i { want.min(*r) } else { want }),
        Frag::InterruptAt(i) => {
            if call == *i {
                Err(())
            } else {
                Ok(want)
            }
        }
        Frag::Two(a, b) => {
            let x = frag_limit(a, call, want)?;
            frag_limit(b, call, x)
        }
    }
}

impl Read for ScriptReader {
    fn read(&mut self, buf: &mut [u8]) -> io::Result<usize> {
        let call = self.call;
        self.call += 1;
        if let Some(c) = &self.counter {
            _ = c.fetch_add(1, std::sync::atomic::Ordering::Relaxed);
        }
        let want = buf.len().min(self.data.len() - self.pos);
        match frag_limit(&self.frag, call, want) {
            Err(()) => Err(io::Error::new(io::ErrorKind::Interrupted, "scripted interrupt")),
            Ok(n) => {
                // never return 0 for a non-empty request with data left (that would signal EOF)
                let n = if want > 0 && buf.len() > 0 { n.max(1).min(want) } else { n };
                buf[..n].copy_from_slice(&self.data[self.pos..self.pos + n]);
                self.pos += n;
                Ok(n)
            }
        }
    }
}

/// A `ReadSource` over an in-memory tree. The tree's root is stored under `root` (a relative
/// path such as `r`), so the snapshot's top tree has one entry `r`.
#[derive(Clone)]
pub struct MemSource {
    pub root: PathBuf,
    pub tree: Arc<Entry>,
    pub frag: Frag,
    /// stored node name overrides by relative path (hostile names: the tree position comes
    /// from the path, the stored name from here, verbatim)
    pub name_override: BTreeMap<Vec<u8>, String>,
}

impl MemSource {
    pub fn new(root: &str, tree: Entry) -> Self {
        Self {
            root: PathBuf::from(root),
            tree: Arc::new(tree),
            frag: Frag::Full,
            name_override: BTreeMap::new(),
        }
    }
}

/// POSIX permission + special bits (0o7777) and entry kind -> Go's `fs.FileMode` as stored in trees
/// (what the real file-system source does)
pub fn to_go_mode(posix: u32, is_dir: bool, is_symlink: bool) -> u32 {
    let mut m = posix & 0o777;
    if is_dir {
        m |= 1 << 31;
    }
    if is_symlink {
        m |= 1 << 27;
    }
    if posix & 0o4000 != 0 {
        m |= 1 << 23;
    }
    if posix & 0o2000 != 0 {
        m |= 1 << 22;
    }
    if posix & 0o1000 != 0 {
        m |= 1 << 20;
    }
    m
}

/// Go `fs.FileMode` -> POSIX permission + special bits
pub fn from_go_mode(go: u32) -> u32 {
    let mut m = go & 0o777;
    if go & (1 << 23) != 0 {
        m |= 0o4000;
    }
    if go & (1 << 22) != 0 {
        m |= 0o2000;
    }
    if go & (1 << 20) != 0 {
        m |= 0o1000;
    }
    m
}

fn ts(ns: i128) -> Option<jiff::Timestamp> {
    jiff::Timestamp::from_nanosecond(ns).ok()
}

pub fn node_of(name: &[u8], e: &Entry, raw_name: Option<&String>) -> Node {
    let (node_type, size) = match &e.ent {
        Ent::Dir(_) => (NodeType::Dir, 0),
        Ent::File(d) => (NodeType::File, d.len() as u64),
        Ent::Symlink(t) => (
            NodeType::from_link(std::path::Path::new(OsStr::from_bytes(t))),
            0,
        ),
    };
    let meta = Metadata {
        mode: e.meta.mode.map(|m| to_go_mode(m, matches!(e.ent, Ent::Dir(_)), matches!(e.ent, Ent::Symlink(_)))),
        mtime: e.meta.mtime.and_then(ts),
        atime: e.meta.atime.and_then(ts),
        ctime: e.meta.ctime.and_then(ts),
        uid: e.meta.uid,
        gid: e.meta.gid,
        user: None,
        group: None,
        inode: e.meta.inode,
        device_id: e.meta.dev,
        size,
        links: e.meta.links,
        extended_attributes: Vec::new(),
    };
    let mut node = Node::new_node(OsStr::from_bytes(name), node_type, meta);
    if let Some(n) = raw_name {
        node.name = n.clone();
    }
    node
}

impl ReadSource for MemSource {
    type Open = ScriptReader;
    type Iter = std::vec::IntoIter<RusticResult<ReadSourceEntry<ScriptReader>>>;

    fn size(&self) -> RusticResult<Option<u64>> {
        Ok(None)
    }

    fn entries(&self) -> Self::Iter {
        let mut out = Vec::new();
        // the root dir itself
        let root_name = self
            .root
            .file_name()
            .map(|n| n.as_bytes().to_vec())
            .unwrap_or_default();
        out.push(Ok(ReadSourceEntry {
            path: self.root.clone(),
            node: node_of(&root_name, &self.tree, None),
            open: None,
        }));
        let mut all = Vec::new();
        self.tree.walk(b"", &mut all);
        for (rel, e) in all {
            let path = self.root.join(OsStr::from_bytes(&rel));
            let name = rel.rsplit(|b| *b == b'/').next().unwrap().to_vec();
            let node = node_of(&name, &e, self.name_override.get(&rel));
            let open = match &e.ent {
                Ent::File(d) => Some(ScriptReader::new(d.clone(), self.frag.clone())),
                _ => None,
            };
            out.push(Ok(ReadSourceEntry { path, node, open }));
        }
        out.into_iter()
    }
}
