//! C03 — every crash point or failed write leaves only fully readable snapshots.
//! CRASH: every backend state reached after each mutating call of each explored linearisation
//! (default schedule + deviations under the gate), and every single failed write/remove.

use std::{
    collections::{BTreeMap, BTreeSet},
    sync::Arc,
    time::Duration,
};

use rustic_core::{
    BackupOptions, ConfigOptions, FileType, KeyOptions, LimitOption, PruneOptions,
    RepairIndexOptions, RepairSnapshotsOptions, Repository, RepositoryBackends, RewriteOptions,
    RewriteTreesOptions, SnapshotOptions, last_modified_node,
};
use serde_json::{Value, json};
use vkit::{
    backend::{MemBackend, Store, World},
    decode::{RawKey, canon_store},
    gate::{Gate, OpDesc, RunEnd, explore, oldest_first},
    logical::{LTree, diff, model_tree, read_snapshot},
    rep::{Env, backup_with, master_key, repo_opts},
    report::{Args, Report},
    source::{Entry, MemSource},
};

use crate::{
    c02::{T0, source},
    c13::{config_with_packs, run_gated},
};

type Cmd = Box<dyn FnOnce(RepositoryBackends, Arc<Gate>) -> Result<String, String> + Send>;

pub struct Scenario {
    pub name: &'static str,
    pub stores: Vec<Store>,
    /// acceptable contents per label (old and/or new versions)
    pub allowed: BTreeMap<String, Vec<LTree>>,
    pub make: Box<dyn Fn() -> Cmd>,
    /// explore alternative linearisations under the gate (commands with concurrent writers)
    pub concurrent: bool,
    /// hooks
    pub indexer_max: usize,
}

fn open_with(bes: &RepositoryBackends) -> Result<Repository<rustic_core::OpenStatus>, String> {
    Repository::new(&repo_opts(), bes)
        .map_err(|e| e.display_log())?
        .open(&rustic_core::Credentials::Masterkey(master_key()))
        .map_err(|e| e.display_log())
}

fn es<T>(r: rustic_core::RusticResult<T>) -> Result<T, String> {
    r.map_err(|e| e.display_log())
}

/// read every snapshot of a store with a fresh uncached handle: (label, Ok(tree) | Err)
pub fn read_state(store: &Store) -> Result<Vec<(String, Result<LTree, String>)>, String> {
    Ok(read_state_ids(store)?.into_iter().map(|(_, l, r)| (l, r)).collect())
}

/// like `read_state`, with the snapshot id (hex) of each snapshot
pub fn read_state_ids(store: &Store) -> Result<Vec<(String, String, Result<LTree, String>)>, String> {
    read_state_env(&Env::from_store(store.clone()))
}

/// the same through a prepared environment (listing order etc.)
pub fn read_state_env(env: &Env) -> Result<Vec<(String, String, Result<LTree, String>)>, String> {
    let repo = env.open_full().map_err(|e| format!("open/index: {}", e.display_log()))?;
    let snaps = repo.get_all_snapshots().map_err(|e| format!("listing snapshots: {}", e.display_log()))?;
    vkit::rep::snapshot_count_agrees(env, snaps.len())?;
    Ok(snaps.iter().map(|s| (s.id.to_hex().to_string(), s.label.clone(), read_snapshot(&repo, s))).collect())
}

/// repo with snapshots s0..s{n-1} of the evolving source
fn base_repo(n: usize, data_pack: u32, tree_pack: u32) -> (Env, BTreeMap<String, Vec<LTree>>) {
    let env = Env::single();
    _ = env.init_with(config_with_packs(2, data_pack, tree_pack)).expect("init");
    let mut allowed = BTreeMap::new();
    for v in 0..n {
        let t = source(v);
        let repo = env.open_ids().expect("open");
        _ = backup_with(&repo, &MemSource::new("r", t.clone()), &format!("s{v}"), T0 + 1000 + v as i64, &vkit::rep::bopts()).expect("backup");
        _ = allowed.insert(format!("s{v}"), vec![model_tree("r", &t)]);
    }
    (env, allowed)
}

fn forget(env: &Env, labels: &[&str]) {
    let repo = env.open().expect("open");
    let ids: Vec<_> = repo.get_all_snapshots().unwrap().iter().filter(|s| labels.contains(&s.label.as_str())).map(|s| s.id).collect();
    repo.delete_snapshots(&ids).expect("forget");
}

fn without(t: &Entry, path: &str) -> Entry {
    let mut t = t.clone();
    _ = t.remove(path);
    t
}

pub fn scenarios() -> Vec<Scenario> {
    let mut v = Vec::new();

    // --- backup with parent, one-blob packs, index saved every 2 blobs
    {
        let (env, mut allowed) = base_repo(2, 10, 10);
        let t2 = source(2);
        _ = allowed.insert("s2".into(), vec![model_tree("r", &t2)]);
        v.push(Scenario {
            name: "backup-with-parent",
            stores: env.stores(),
            allowed,
            make: Box::new(move || {
                let t2 = t2.clone();
                Box::new(move |bes, gate| {
                    let repo = es(open_with(&bes)?.to_indexed_ids())?;
                    gate.set_enabled(true);
                    es(backup_with(&repo, &MemSource::new("r", t2), "s2", T0 + 1002, &vkit::rep::bopts()))?;
                    Ok("ok".into())
                })
            }),
            concurrent: true,
            indexer_max: 2,
        });
    }
    // --- copy into a non-empty repository
    {
        let (src_env, src_allowed) = base_repo(3, 400, 400);
        forget(&src_env, &["s0"]);
        let dst = Env::single();
        let mut cfg = config_with_packs(2, 300, 300);
        cfg.id = serde_json::from_value(json!("2222222222222222222222222222222222222222222222222222222222222222")).unwrap();
        _ = dst.init_with(cfg).expect("init");
        let t0 = source(0);
        let repo = dst.open_ids().expect("open");
        _ = backup_with(&repo, &MemSource::new("r", t0.clone()), "d0", T0 + 900, &vkit::rep::bopts()).expect("backup");
        let mut allowed = BTreeMap::new();
        _ = allowed.insert("d0".to_string(), vec![model_tree("r", &t0)]);
        _ = allowed.insert("s1".to_string(), src_allowed["s1"].clone());
        _ = allowed.insert("s2".to_string(), src_allowed["s2"].clone());
        let src_store = src_env.store();
        v.push(Scenario {
            name: "copy-into-nonempty",
            stores: dst.stores(),
            allowed,
            make: Box::new(move || {
                let src_store = src_store.clone();
                Box::new(move |bes, gate| {
                    let src = es(Env::from_store(src_store).open_full())?;
                    let snaps = es(src.get_all_snapshots())?;
                    let dst = es(open_with(&bes)?.to_indexed_ids())?;
                    gate.set_enabled(true);
                    es(src.copy(&dst, snaps.iter()))?;
                    Ok("ok".into())
                })
            }),
            concurrent: true,
            indexer_max: 0,
        });
    }
    // --- merge
    {
        let (env, mut allowed) = base_repo(2, 400, 10);
        // merged content: union, conflicts resolved by last modified (s1 is newer where it differs)
        let mut merged = source(0);
        let s1 = source(1);
        let mut all = Vec::new();
        s1.walk(b"", &mut all);
        for (p, e) in all {
            if !matches!(e.ent, vkit::source::Ent::Dir(_)) {
                merged.insert(std::str::from_utf8(&p).unwrap(), e);
            }
        }
        _ = allowed.insert("m".into(), vec![model_tree("r", &merged)]);
        v.push(Scenario {
            name: "merge",
            stores: env.stores(),
            allowed,
            make: Box::new(move || {
                Box::new(move |bes, gate| {
                    let repo = es(open_with(&bes)?.to_indexed())?;
                    let snaps = es(repo.get_all_snapshots())?;
                    gate.set_enabled(true);
                    let snap = es(SnapshotOptions::default().label(Some("m".to_string())).host(Some("h".to_string())).to_snapshot())?;
                    es(repo.merge_snapshots(&snaps, &last_modified_node, snap))?;
                    Ok("ok".into())
                })
            }),
            concurrent: false,
            indexer_max: 0,
        });
    }
    // --- rewrite with excludes and forget
    {
        let (env, mut allowed) = base_repo(2, 400, 10);
        for v in 0..2 {
            let t = without(&source(v), "d1/b");
            allowed.get_mut(&format!("s{v}")).unwrap().push(model_tree("r", &t));
        }
        v.push(Scenario {
            name: "rewrite-forget",
            stores: env.stores(),
            allowed,
            make: Box::new(move || {
                Box::new(move |bes, gate| {
                    let repo = es(open_with(&bes)?.to_indexed())?;
                    let snaps = es(repo.get_all_snapshots())?;
                    gate.set_enabled(true);
                    let opts = RewriteOptions::default().forget(true);
                    let mut topts = RewriteTreesOptions::default();
                    topts.excludes.globs = vec!["!/r/d1/b".to_string()];
                    let res = es(repo.rewrite_snapshots_and_trees(snaps, &opts, &topts))?;
                    Ok(format!("rewrote {}", res.len()))
                })
            }),
            concurrent: true,
            indexer_max: 0,
        });
    }
    // --- repair snapshots after the loss of a data pack (index repaired first)
    {
        let (env, _allowed) = base_repo(2, 10, 10);
        // remove the data pack holding the (single) chunk of d1/a
        let store = env.store();
        let raw = RawKey::from_master(&master_key());
        let a_id = vkit::decode::sha256_hex(match &source(0).get("d1/a").unwrap().ent {
            vkit::source::Ent::File(d) => d,
            _ => unreachable!(),
        });
        let mut victim = None;
        for (pid, _) in store.list(FileType::Pack) {
            if let Ok(h) = vkit::decode::pack_header(&raw, store.get(FileType::Pack, &pid).unwrap()) {
                if h.iter().any(|b| b.tpe == 0 && (b.id == a_id || h.len() == 1 && victim.is_none() && b.tpe == 0)) {
                    victim = Some(pid);
                    if h.iter().any(|b| b.id == a_id) {
                        break;
                    }
                }
            }
        }
        let mut st = store.clone();
        _ = st.del(FileType::Pack, &victim.expect("victim pack"));
        env.set_store(st);
        es(env.open().unwrap().repair_index(&RepairIndexOptions::default(), false)).expect("repair index");
        // nothing is readable before: acceptable contents are computed from the repaired result of an undisturbed run
        let undisturbed = {
            let e2 = Env::from_store(env.store());
            let repo = e2.open_full().expect("open");
            let snaps = repo.get_all_snapshots().expect("snaps");
            es(repo.repair_snapshots(&RepairSnapshotsOptions::default(), snaps, false)).expect("repair snapshots");
            read_state(&e2.store()).expect("read")
        };
        let mut allowed: BTreeMap<String, Vec<LTree>> = BTreeMap::new();
        for (l, t) in undisturbed {
            allowed.entry(l).or_default().push(t.expect("repaired snapshot must be readable in the undisturbed run"));
        }
        v.push(Scenario {
            name: "repair-snapshots",
            stores: env.stores(),
            allowed,
            make: Box::new(move || {
                Box::new(move |bes, gate| {
                    let repo = es(open_with(&bes)?.to_indexed())?;
                    let snaps = es(repo.get_all_snapshots())?;
                    gate.set_enabled(true);
                    es(repo.repair_snapshots(&RepairSnapshotsOptions::default(), snaps, false))?;
                    Ok("ok".into())
                })
            }),
            concurrent: false,
            indexer_max: 0,
        });
    }
    // --- repair index (default and read_all) on a healthy repository with two index files
    for read_all in [false, true] {
        let (env, allowed) = base_repo(2, 400, 400);
        v.push(Scenario {
            name: if read_all { "repair-index-read-all" } else { "repair-index" },
            stores: env.stores(),
            allowed,
            make: Box::new(move || {
                Box::new(move |bes, gate| {
                    let repo = open_with(&bes)?;
                    gate.set_enabled(true);
                    es(repo.repair_index(&RepairIndexOptions::default().read_all(read_all), false))?;
                    Ok("ok".into())
                })
            }),
            concurrent: false,
            indexer_max: 0,
        });
    }
    // --- repair index after an index file was lost
    {
        let (env, allowed) = base_repo(2, 400, 400);
        let mut st = env.store();
        let first = st.ids(FileType::Index)[0];
        _ = st.del(FileType::Index, &first);
        env.set_store(st);
        v.push(Scenario {
            name: "repair-index-after-index-loss",
            stores: env.stores(),
            allowed,
            make: Box::new(move || {
                Box::new(move |bes, gate| {
                    let repo = open_with(&bes)?;
                    gate.set_enabled(true);
                    es(repo.repair_index(&RepairIndexOptions::default(), false))?;
                    Ok("ok".into())
                })
            }),
            concurrent: false,
            indexer_max: 0,
        });
    }
    // --- forget
    {
        let (env, allowed) = base_repo(3, 400, 400);
        v.push(Scenario {
            name: "forget-two",
            stores: env.stores(),
            allowed,
            make: Box::new(move || {
                Box::new(move |bes, gate| {
                    let repo = open_with(&bes)?;
                    let ids: Vec<_> = es(repo.get_all_snapshots())?.iter().filter(|s| s.label != "s2").map(|s| s.id).collect();
                    gate.set_enabled(true);
                    es(repo.delete_snapshots(&ids))?;
                    Ok("ok".into())
                })
            }),
            concurrent: true,
            indexer_max: 0,
        });
    }
    // --- prune variants
    let prune_variants: Vec<(&'static str, PruneOptions, bool)> = vec![
        // tree packs large enough to hold all trees of one backup: partly used ones get repacked
        ("prune-repack-trees", PruneOptions::default().max_unused(LimitOption::Percentage(0)).max_repack(LimitOption::Unlimited), false),
        ("prune-repack-trees-instant", PruneOptions::default().instant_delete(true).max_unused(LimitOption::Percentage(0)).max_repack(LimitOption::Unlimited), false),
        ("prune-mark-only", PruneOptions::default(), false),
        ("prune-delete-marked", PruneOptions::default().keep_delete(jiff::Span::new()), true),
        ("prune-repack-fast", PruneOptions::default().max_unused(LimitOption::Percentage(0)).max_repack(LimitOption::Unlimited).fast_repack(true), false),
        ("prune-repack-slow", PruneOptions::default().max_unused(LimitOption::Percentage(0)).max_repack(LimitOption::Unlimited), false),
        ("prune-instant-delete", PruneOptions::default().instant_delete(true).max_unused(LimitOption::Percentage(0)).max_repack(LimitOption::Unlimited), false),
        // early-delete-index is documented to act only together with instant-delete (the excluded,
        // documented-unsafe pair); set alone it must leave the order of operations untouched
        ("prune-early-delete-index-alone", PruneOptions::default().early_delete_index(true).max_unused(LimitOption::Percentage(0)).max_repack(LimitOption::Unlimited), false),
        ("prune-early-delete-index-alone-marked", PruneOptions::default().early_delete_index(true).keep_delete(jiff::Span::new()), true),
    ];
    for (name, opts, premark) in prune_variants {
        let (env, mut allowed) = base_repo(3, 600, if name.starts_with("prune-repack-trees") { 4000 } else { 500 });
        forget(&env, &["s0", "s1"]);
        _ = allowed.remove("s0");
        _ = allowed.remove("s1");
        if premark {
            // a first prune marks packs; the explored one deletes them (keep-delete 0)
            let repo = env.open().expect("open");
            let o = PruneOptions::default().max_unused(LimitOption::Percentage(0)).max_repack(LimitOption::Unlimited);
            let plan = repo.prune_plan(&o).expect("plan");
            repo.prune(&o, plan).expect("prune");
        }
        v.push(Scenario {
            name,
            stores: env.stores(),
            allowed,
            make: Box::new(move || {
                let opts = opts.clone();
                Box::new(move |bes, gate| {
                    let repo = open_with(&bes)?;
                    gate.set_enabled(true);
                    let plan = es(repo.prune_plan(&opts))?;
                    if std::env::var("VERIF_DEBUG").is_ok() {
                        eprintln!("plan: {:?}", plan.stats.debug.0.iter().map(|(k, v)| (format!("{:?}/{:?}", k.todo, k.blob_type), v.packs)).collect::<Vec<_>>());
                    }
                    es(repo.prune(&opts, plan))?;
                    Ok("ok".into())
                })
            }),
            concurrent: true,
            indexer_max: 0,
        });
    }
    // --- config and key changes
    {
        let (env, allowed) = base_repo(2, 400, 400);
        v.push(Scenario {
            name: "apply-config",
            stores: env.stores(),
            allowed,
            make: Box::new(move || {
                Box::new(move |bes, gate| {
                    let mut repo = open_with(&bes)?;
                    gate.set_enabled(true);
                    let changed = es(repo.apply_config(&ConfigOptions::default().set_compression(3)))?;
                    Ok(format!("changed {changed}"))
                })
            }),
            concurrent: false,
            indexer_max: 0,
        });
    }
    {
        let (env, allowed) = base_repo(2, 400, 400);
        v.push(Scenario {
            name: "add-and-delete-key",
            stores: env.stores(),
            allowed,
            make: Box::new(move || {
                Box::new(move |bes, gate| {
                    let repo = open_with(&bes)?;
                    gate.set_enabled(true);
                    let id = es(repo.add_key("pw", &KeyOptions::default()))?;
                    es(repo.delete_key(&id))?;
                    Ok("ok".into())
                })
            }),
            concurrent: false,
            indexer_max: 0,
        });
    }
    v
}

/// Crash invariant for `state`: every visible snapshot must be completely readable with an
/// acceptable content, except snapshots (by id) that were already unreadable before the command.
fn crash_invariant(sc: &Scenario, state: &Store, unreadable_before: &BTreeSet<String>) -> Result<(), (String, String)> {
    let got = read_state_ids(state).map_err(|e| (format!("C03/{}/open", sc.name), format!("a fresh handle cannot use the repository: {e}")))?;
    for (id, label, res) in &got {
        match res {
            Err(e) => {
                if unreadable_before.contains(id) {
                    continue;
                }
                return Err((format!("C03/{}/unreadable-snapshot", sc.name), format!("visible snapshot {label} cannot be read completely: {e}")));
            }
            Ok(t) => {
                let ok = sc.allowed.get(label).is_some_and(|alts| alts.iter().any(|a| diff(a, t).is_none()));
                if !ok {
                    let d = sc.allowed.get(label).and_then(|a| a.first()).and_then(|a| diff(a, t)).unwrap_or_else(|| "unexpected label".into());
                    return Err((format!("C03/{}/wrong-content", sc.name), format!("snapshot {label} has none of the acceptable contents: {d}")));
                }
            }
        }
    }
    Ok(())
}

fn state_json(raw: &RawKey, st: &Store) -> Value {
    json!(canon_store(raw, st))
}

/// run plainly (no gate) with an injected failure; watchdog for termination
fn run_with_failure(sc: &Scenario, k: usize) -> Result<(Result<String, String>, Store, usize), String> {
    let mut world = World::from_stores(sc.stores.clone());
    world.fail_mut_at = Some(k);
    let world = world.shared();
    let gate = Gate::new(RawKey::from_master(&master_key()), &sc.stores);
    gate.lock_open();
    let bes = RepositoryBackends::new(MemBackend::arc(&world, 0), None);
    let cmd = (sc.make)();
    rustic_core::verif::limits::set_indexer_max_count(sc.indexer_max);
    let (tx, rx) = std::sync::mpsc::channel();
    let g2 = gate.clone();
    _ = std::thread::spawn(move || {
        let r = std::panic::catch_unwind(std::panic::AssertUnwindSafe(|| {
            let r = cmd(bes, g2.clone());
            // the closure enables the gate; keep it open for plain runs
            g2.set_enabled(false);
            r
        }));
        _ = tx.send(match r {
            Ok(r) => r,
            Err(e) => Err(format!("PANIC: {}", e.downcast_ref::<String>().cloned().or_else(|| e.downcast_ref::<&str>().map(|s| (*s).to_string())).unwrap_or_default())),
        });
    });
    // the command enables the gate itself: keep opening it until the command returns
    let start = std::time::Instant::now();
    loop {
        match rx.recv_timeout(Duration::from_millis(50)) {
            Ok(r) => {
                let w = world.lock().unwrap();
                if std::env::var("VERIF_DEBUG").is_ok() {
                    eprintln!("result: {r:?}");
                    for o in w.log.iter().filter(|o| o.mut_idx.is_some()) {
                        eprintln!("  mut {:?} {:?} {:?} {} len={} ok={}", o.mut_idx, o.kind, o.tpe, &vkit::decode::hex_id(&o.id)[..8], o.len, o.ok);
                    }
                }
                return Ok((r, w.stores[0].clone(), w.mut_count));
            }
            Err(_) if start.elapsed() > Duration::from_secs(20) => return Err("command did not terminate within 20 s after an injected failure".into()),
            Err(_) => {}
        }
    }
}

pub fn run(args: &Args, rep: &mut Report) {
    let raw = RawKey::from_master(&master_key());
    let quick = args.quick();
    let bound = if quick { 2 } else { 3 };
    let max_execs = if quick { 300 } else { 10_000 };
    std::panic::set_hook(Box::new(|_| {}));
    rep.set_meta("rule", json!("for each command scenario: every backend state after each mutating call of the default linearisation and of all linearisations with <= bound deviations (concurrent writers), de-duplicated on the canonical store; plus one run per mutating call index with that call failing. Non-trivial = distinct canonical crash states strictly between the initial and the final state"));
    rep.set_meta("bounds", json!(format!("{} scenarios; deviations <= {bound}; <= {max_execs} linearisations per scenario and shard", scenarios().len())));
    let scs = scenarios();
    if let Some(p) = &args.replay {
        let v: Value = serde_json::from_str(&std::fs::read_to_string(p).unwrap()).unwrap();
        let c = &v["case"];
        let sc = scs.iter().find(|s| Some(s.name) == c["scenario"].as_str()).expect("scenario");
        rep.inc("cases");
        let unreadable_before = before(sc);
        if let Some(k) = c["fail_at"].as_u64() {
            check_failure(sc, k as usize, &unreadable_before, rep);
        } else {
            let prefix: Vec<OpDesc> = serde_json::from_value(c["schedule"].clone()).unwrap_or_default();
            let upto = c["crash_after"].as_u64().unwrap_or(0) as usize;
            rustic_core::verif::limits::set_indexer_max_count(sc.indexer_max);
            let x = run_gated(&raw, sc.stores.clone(), &prefix, false, vec![(sc.make)()], oldest_first);
            if let Some(st) = x.outcome[0].states.get(upto) {
                if let Err((sig, msg)) = crash_invariant(sc, &st[0], &unreadable_before) {
                    rep.violation(sig, msg, c.clone());
                }
            }
        }
        return;
    }
    for (si, sc) in scs.iter().enumerate() {
        let unreadable_before = before(sc);
        rustic_core::verif::limits::set_indexer_max_count(sc.indexer_max);
        let mut seen: BTreeSet<Vec<String>> = BTreeSet::new();
        let mut nmut_default = 0usize;
        let shard = if sc.concurrent { (args.shard, args.nshards) } else { (0, 1) };
        // non-concurrent scenarios have a single linearisation: one shard handles each
        if !sc.concurrent && !args.mine(si) {
            continue;
        }
        let (_execs, capped) = explore(
            if sc.concurrent { bound } else { 0 },
            max_execs,
            shard,
            |prefix| run_gated(&raw, sc.stores.clone(), prefix, false, vec![(sc.make)()], oldest_first),
            |prefix, x| {
                rep.inc("linearisations");
                rep.inc(&format!("linearisations:{}", sc.name));
                if prefix.is_empty() {
                    nmut_default = x.outcome[0].states.len();
                }
                match &x.end {
                    RunEnd::Finished => {}
                    RunEnd::Deadlock(who) => {
                        rep.violation(format!("C03/{}/deadlock", sc.name), format!("quiescent with nothing pending but {who:?} unfinished"), json!({"scenario": sc.name, "schedule": prefix}));
                        return;
                    }
                    RunEnd::Hang(_) => {
                        // inconclusive under CPU overload (see c13.rs)
                        rep.inc("inconclusive_executions");
                        rep.cap("some executions did not reach quiescence within the time limit and were discarded");
                        return;
                    }
                }
                if let Err(e) = &x.outcome[0].result {
                    rep.violation(format!("C03/{}/command-error", sc.name), format!("undisturbed command failed: {e}"), json!({"scenario": sc.name, "schedule": prefix}));
                    return;
                }
                let n = x.outcome[0].states.len();
                for (k, st) in x.outcome[0].states.iter().enumerate() {
                    let c = canon_store(&raw, &st[0]);
                    if !seen.insert(c.clone()) {
                        continue;
                    }
                    rep.inc("cases");
                    rep.inc("crash_states");
                    if k + 1 < n {
                        _ = rep.distinct("nontrivial", &(sc.name, &c));
                    }
                    if rep.samples.len() < 3 && k == 1 {
                        rep.sample(json!({"scenario": sc.name, "crash_after_mutating_call": k, "state": c}));
                    }
                    if let Err((sig, msg)) = crash_invariant(sc, &st[0], &unreadable_before) {
                        rep.violation(sig, format!("crash after mutating call {k} of {n}: {msg}"), json!({"scenario": sc.name, "schedule": prefix, "crash_after": k}));
                    }
                }
            },
        );
        if capped {
            rep.cap(format!("scenario {}: linearisation cap {max_execs} reached", sc.name));
        }
        // single failures along the default linearisation (sharded by call index)
        _ = nmut_default;
        let nmut = run_with_failure(sc, usize::MAX).map(|(_, _, n)| n).unwrap_or(0);
        rep.max(&format!("mutating_calls:{}", sc.name), nmut as u64);
        for k in 0..nmut {
            if !args.mine(k + si) {
                continue;
            }
            rep.inc("cases");
            rep.inc("failed_call_runs");
            check_failure(sc, k, &unreadable_before, rep);
        }
    }
}

/// ids of the snapshots that cannot be read before the command runs (pre-damaged scenarios)
fn before(sc: &Scenario) -> BTreeSet<String> {
    read_state_ids(&sc.stores[0])
        .map(|v| v.into_iter().filter(|(_, _, r)| r.is_err()).map(|(id, _, _)| id).collect())
        .unwrap_or_default()
}

fn check_failure(
    sc: &Scenario,
    k: usize,
    unreadable_before: &BTreeSet<String>,
    rep: &mut Report,
) {
    let case = json!({"scenario": sc.name, "fail_at": k});
    match run_with_failure(sc, k) {
        Err(e) => rep.violation(format!("C03/{}/no-termination-after-failure", sc.name), e, case),
        Ok((res, store, nmut)) => {
            if nmut <= k {
                // the run issued fewer mutating calls than the default schedule: nothing failed
                rep.inc("failed_call_not_reached");
                return;
            }
            _ = rep.distinct("nontrivial", &(sc.name, "fail", k));
            match &res {
                Ok(_) => rep.violation(
                    format!("C03/{}/failure-reported-as-success", sc.name),
                    format!("mutating call {k} failed but the command returned Ok"),
                    case.clone(),
                ),
                Err(e) if e.starts_with("PANIC") => rep.violation(format!("C03/{}/panic-after-failure", sc.name), e.clone(), case.clone()),
                Err(_) => {}
            }
            if let Err((sig, msg)) = crash_invariant(sc, &store, unreadable_before) {
                rep.violation(format!("{sig}[after-failed-call]"), format!("after failed mutating call {k}: {msg}"), case);
            }
        }
    }
}
