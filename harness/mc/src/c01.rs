//! C01 — backup followed by restore reproduces the source exactly.
//! ENUM with the memory source seam and the file-system restore seam: tree shapes, names,
//! configurations x contents, link targets / nesting / modes / times.

use std::{
    collections::{BTreeMap, HashMap},
    fs,
    os::unix::ffi::OsStrExt,
    panic::{AssertUnwindSafe, catch_unwind},
    path::Path,
};

use rustic_core::{
    LocalDestination, LsOptions, RestoreOptions,
    repofile::{Chunker, ConfigFile},
};
use serde_json::{Value, json};
use vkit::{
    decode::independent_read,
    fsx::{sandbox, snapshot},
    logical::{LTree, diff, model_tree},
    rep::{Env, POLY, backup_with, base_config, bopts, check_errors, popts},
    report::{Args, Report},
    source::{Ent, Entry, MemSource, Meta},
};

use crate::{
    c02::T0,
    c06::{Params, ref_chunks},
    c13::lcg,
};

#[derive(Clone, Debug)]
struct Cfg {
    version: u32,
    compression: Option<i32>,
    /// 0 rabin default, 1 rabin 4096/4096/16384, 2 rabin 64/64/256, 3.. fixed (1,2,4096,8000)
    chunker: usize,
    /// 0 default, 1 one blob per pack, 2 300 B
    packs: usize,
}

impl Cfg {
    fn config(&self) -> ConfigFile {
        let mut c = base_config(self.version);
        c.compression = self.compression;
        match self.chunker {
            0 => {}
            1 => {
                c.chunk_size = Some(4096);
                c.chunk_min_size = Some(4096);
                c.chunk_max_size = Some(16384);
            }
            2 => {
                c.chunk_size = Some(64);
                c.chunk_min_size = Some(64);
                c.chunk_max_size = Some(256);
            }
            k => {
                c.chunker = Some(Chunker::FixedSize);
                c.chunk_size = Some([1usize, 2, 4096, 8000][k - 3]);
            }
        }
        match self.packs {
            0 => {}
            p => {
                let s = if p == 1 { 10 } else { 300 };
                c.datapack_size = Some(s);
                c.datapack_growfactor = Some(0);
                c.treepack_size = Some(s);
                c.treepack_growfactor = Some(0);
            }
        }
        c
    }
    /// chunk boundaries of `data` (for the ranged read grid), by the independent reference
    fn cuts(&self, data: &[u8]) -> Vec<usize> {
        let poly = u64::from_str_radix(POLY, 16).unwrap();
        let p = match self.chunker {
            0 => Params { fixed: false, poly, size: 1 << 20, min: 512 * 1024, max: 8 << 20 },
            1 => Params { fixed: false, poly, size: 4096, min: 4096, max: 16384 },
            2 => Params { fixed: false, poly, size: 64, min: 64, max: 256 },
            k => Params { fixed: true, poly, size: [1usize, 2, 4096, 8000][k - 3], min: 0, max: 0 },
        };
        if p.fixed && p.size < 64 && data.len() > 4000 {
            return vec![1, 2, data.len() / 2];
        }
        ref_chunks(data, &p, &mut HashMap::new()).iter().scan(0usize, |a, l| { *a += l; Some(*a) }).take(6).collect()
    }
    fn json(&self) -> Value {
        json!({"version": self.version, "compression": self.compression, "chunker": self.chunker, "packs": self.packs})
    }
    fn from_json(v: &Value) -> Self {
        Self { version: v["version"].as_u64().unwrap() as u32, compression: v["compression"].as_i64().map(|x| x as i32), chunker: v["chunker"].as_u64().unwrap() as usize, packs: v["packs"].as_u64().unwrap() as usize }
    }
}

const DEFAULT_CFG: Cfg = Cfg { version: 2, compression: None, chunker: 2, packs: 2 };

thread_local! {
    /// slice S5: the tree is materialised in this directory and backed up through the library's own
    /// file-system source (`Repository::backup`, `LocalSource`) instead of the in-memory source
    static FROM_FS: std::cell::RefCell<Option<std::path::PathBuf>> = const { std::cell::RefCell::new(None) };
}

/// the complete read-back oracle for one (config, tree)
fn check_case(cfg: &Cfg, tree: &Entry, fs_restore: Option<&Path>) -> Result<(), (String, String)> {
    let es = |what: &str, e: Box<rustic_core::RusticError>| (format!("C01/{what}/error"), e.display_log());
    let env = Env::single();
    _ = env.init_with(cfg.config()).map_err(|e| es("init", e))?;
    let repo = env.open_ids().map_err(|e| es("open", e))?;
    let snap = if let Some(dir) = FROM_FS.with(|f| f.borrow().clone()) {
        _ = fs::remove_dir_all(&dir);
        let root = dir.join("r");
        fs::create_dir_all(&root).map_err(|e| ("C01/machinery".to_string(), e.to_string()))?;
        crate::c14::materialise(&root, tree);
        if let Some(m) = tree.meta.mode {
            vkit::fsx::set_mode(&root, m);
        }
        if let Some(mt) = tree.meta.mtime {
            vkit::fsx::set_mtime(&root, mt);
        }
        let paths = rustic_core::PathList::from_string(root.to_str().unwrap()).map_err(|e| es("pathlist", e))?;
        let opts = bopts().parent_opts(popts().force(true)).as_path(std::path::PathBuf::from("r"));
        let snap = vkit::rep::snap_opts("s", T0 + 1000).map_err(|e| es("snapshot-options", e))?;
        repo.backup(&opts, &paths, snap).map_err(|e| es("backup-from-fs", e))?
    } else {
        backup_with(&repo, &MemSource::new("r", tree.clone()), "s", T0 + 1000, &bopts().parent_opts(popts().force(true))).map_err(|e| es("backup", e))?
    };
    let mut model = model_tree("r", tree);
    if FROM_FS.with(|f| f.borrow().is_some()) {
        // the directory handed to the backup is itself not an entry of the walk: its node is
        // synthesised (default mode, no times), only what lies below it is compared in full
        if model.len() == 1 {
            // an empty directory: nothing below it, so not even the synthesised node exists
            model.clear();
        } else if let Some(r) = model.get_mut(&b"r"[..]) {
            r.mtime = None;
            r.mode = Some(0o755);
        }
    }
    // (a)+(b) ls and dump through the API
    let full = env.open_full().map_err(|e| es("open", e))?;
    let got = vkit::logical::read_snapshot(&full, &snap).map_err(|e| ("C01/read/api".to_string(), e))?;
    if let Some(d) = diff(&model, &got) {
        return Err(("C01/content/api".into(), d));
    }
    // independent decoder
    let ind = independent_read(&env.raw, &env.store()).map_err(|e| ("C01/read/independent".to_string(), e))?;
    if let Some(d) = ind.get("s").map_or(Some("snapshot missing".to_string()), |g| diff(&model, g)) {
        return Err(("C01/content/independent".into(), d));
    }
    // (c) ranged reads
    let mut all = Vec::new();
    tree.walk(b"", &mut all);
    for (p, e) in &all {
        if let Ent::File(d) = &e.ent {
            let path = format!("r/{}", String::from_utf8_lossy(p));
            if std::str::from_utf8(p).is_err() {
                continue;
            }
            let node = match full.node_from_snapshot_and_path(&snap, &path) {
                Ok(n) => n,
                // names needing escapes cannot be addressed by a path string: ls/dump covered them
                Err(_) => continue,
            };
            let of = full.open_file(&node).map_err(|e| es("open_file", e))?;
            let n = d.len();
            let mut grid = vec![0usize, 1, n / 2, n.saturating_sub(1), n, n + 1];
            for c in cfg.cuts(d) {
                grid.extend([c.saturating_sub(1), c, c + 1]);
            }
            grid.sort_unstable();
            grid.dedup();
            for &off in &grid {
                for &len in &grid {
                    let want: &[u8] = if off >= n { &[] } else { &d[off..(off + len).min(n)] };
                    let r = full.read_file_at(&of, off, len).map_err(|e| es("read_file_at", e))?;
                    if r[..] != *want {
                        return Err(("C01/read_file_at".into(), format!("{path}: read_at({off},{len}) returned {} bytes, expected {}", r.len(), want.len())));
                    }
                }
            }
        }
    }
    // check --read-data
    let errs = check_errors(&env, true).map_err(|e| ("C01/check/failed".to_string(), e))?;
    if !errs.is_empty() {
        return Err(("C01/check/errors".into(), errs.join(" | ")));
    }
    // (d) restore to an empty directory
    if let Some(dir) = fs_restore {
        // ownership handling off, and - where the source has set-id/sticky bits, which a chown
        // clears - also on (by name and numeric; the harness runs as root, owners are root)
        let special = model.values().any(|n| n.kind != "symlink" && n.mode.is_some_and(|m| m & 0o7000 != 0));
        let mut optsv = vec![RestoreOptions::default().no_ownership(true)];
        if special {
            optsv.push(RestoreOptions::default());
            optsv.push(RestoreOptions::default().numeric_id(true));
        }
      for opts in optsv {
        _ = fs::remove_dir_all(dir);
        let node = full.node_from_snapshot_and_path(&snap, "").map_err(|e| es("root-node", e))?;
        let ls = full.ls(&node, &LsOptions::default().recursive(true)).map_err(|e| es("ls", e))?;
        let dest = LocalDestination::new(dir.to_str().unwrap(), true, false).map_err(|e| es("destination", e))?;
        let plan = full.prepare_restore(&opts, ls.clone(), &dest, false).map_err(|e| es("prepare-restore", e))?;
        full.restore(plan, &opts, ls, &dest).map_err(|e| es("restore", e))?;
        let fsr = snapshot(dir);
        let mut links: BTreeMap<(u64, u64), u64> = BTreeMap::new();
        for (p, n) in &model {
            let Some(g) = fsr.get(p) else {
                return Err(("C01/restore/missing".into(), format!("{} is missing after restore", String::from_utf8_lossy(p))));
            };
            if g.kind != n.kind {
                return Err(("C01/restore/type".into(), format!("{}: restored as {}, source is {}", String::from_utf8_lossy(p), g.kind, n.kind)));
            }
            if n.kind == "file" && g.data.as_deref().map(vkit::decode::sha256_hex) != n.sha {
                return Err(("C01/restore/content".into(), format!("{}: restored bytes differ", String::from_utf8_lossy(p))));
            }
            if n.kind == "symlink" && g.target != n.target {
                return Err(("C01/restore/link-target".into(), format!("{}: restored target {:?}, source {:?}", String::from_utf8_lossy(p), g.target, n.target)));
            }
            if n.kind != "symlink" {
                if let Some(m) = n.mode {
                    if g.mode != m & 0o7777 {
                        return Err(("C01/restore/mode".into(), format!("{}: restored mode {:o}, source {:o}", String::from_utf8_lossy(p), g.mode, m)));
                    }
                }
            }
            if let Some(mt) = n.mtime {
                if g.mtime != mt {
                    return Err(("C01/restore/mtime".into(), format!("{}: restored mtime {}, source {}", String::from_utf8_lossy(p), g.mtime, mt)));
                }
            }
            // hardlinks share an inode
            let rel = String::from_utf8_lossy(&p[2.min(p.len())..]).to_string();
            if let Some(e) = tree.get(&rel) {
                if e.meta.links > 1 && matches!(e.ent, Ent::File(_)) {
                    let ino = *links.entry((e.meta.dev, e.meta.inode)).or_insert(g.ino);
                    if ino != g.ino {
                        return Err(("C01/restore/hardlink".into(), format!("{} is not hardlinked to its partner", String::from_utf8_lossy(p))));
                    }
                }
            }
        }
        for p in fsr.keys() {
            if !model.contains_key(p) {
                return Err(("C01/restore/extra".into(), format!("{} was created but is not in the source", String::from_utf8_lossy(p))));
            }
        }
      }
    }
    Ok(())
}

// ---- slices

/// S1: all trees with <= n nodes over {dir, file, symlink} with names a,b,c (canonical: names sorted)
fn shapes(n: usize) -> Vec<Entry> {
    // enumerate forests recursively: a directory's children are a set of (name, kind, subtree)
    fn dirs(budget: usize, depth: usize) -> Vec<(usize, Entry)> {
        // returns (nodes used, dir entry) for all directories using <= budget nodes below them
        let names = ["a", "b", "c"];
        let mut out: Vec<(usize, Entry)> = vec![(0, Entry::dir(T0 + depth as i64))];
        // children assignments: for each name: absent | file | symlink | dir(sub)
        fn rec(i: usize, names: &[&str], budget: usize, depth: usize, cur: &mut Entry, used: usize, out: &mut Vec<(usize, Entry)>) {
            if i == names.len() {
                if used > 0 {
                    out.push((used, cur.clone()));
                }
                return;
            }
            // absent
            rec(i + 1, names, budget, depth, cur, used, out);
            if used < budget {
                for leaf in [Entry::file(lcg(i as u64 + depth as u64 * 7, 80 + i * 90), T0 + 3), Entry::symlink(b"a".to_vec(), T0 + 4)] {
                    cur.insert(names[i], leaf);
                    rec(i + 1, names, budget, depth, cur, used + 1, out);
                    _ = cur.remove(names[i]);
                }
                if depth < 3 {
                    for (u, sub) in dirs(budget - used - 1, depth + 1) {
                        cur.insert(names[i], sub);
                        rec(i + 1, names, budget, depth, cur, used + 1 + u, out);
                        _ = cur.remove(names[i]);
                    }
                }
            }
        }
        let mut cur = Entry::dir(T0 + depth as i64);
        rec(0, &names, budget, depth, &mut cur, 0, &mut out);
        out
    }
    dirs(n, 0).into_iter().map(|(_, e)| e).collect()
}

/// S2: names
fn name_cases() -> Vec<Vec<u8>> {
    let mut v: Vec<Vec<u8>> = Vec::new();
    for b in 1u8..=255 {
        // "/" is the separator and "." is not a file name
        if b != b'/' && b != b'.' {
            v.push(vec![b]);
        }
    }
    let hostile: [&[u8]; 8] = [b"\\", b"\"", b"\n", &[0x80], &[0xff], "é".as_bytes(), b" ", b"."];
    for a in hostile {
        for b in hostile {
            let mut n = a.to_vec();
            n.extend_from_slice(b);
            if n != b".." && n != b"." {
                v.push(n);
            }
        }
    }
    v.push(b"..x".to_vec());
    v.push(b"x..".to_vec());
    v.push(vec![b'n'; 255]);
    v.push("snowman-\u{2603}-\u{1F600}".as_bytes().to_vec());
    v.push(b"\\x41\\u0041".to_vec());
    v.push(b"tab\there".to_vec());
    v.push(vec![0xc3, 0x28]);
    v.push(vec![0xe2, 0x82]);
    v
}

fn fills(name: &str, n: usize) -> Vec<u8> {
    match name {
        "zero" => vec![0u8; n],
        "ff" => vec![0xff; n],
        "p3" => (0..n).map(|i| [1u8, 2, 3][i % 3]).collect(),
        _ => lcg(n as u64 + 3, n),
    }
}

fn cfg_grid(thorough: bool) -> Vec<Cfg> {
    let mut v = Vec::new();
    for version in [2u32, 1] {
        let comps: Vec<Option<i32>> = if version == 1 { vec![None, Some(0)] } else if thorough { vec![None, Some(0), Some(1), Some(22), Some(-7)] } else { vec![None, Some(0), Some(-7)] };
        for compression in comps {
            for chunker in 0..7usize {
                for packs in 0..3usize {
                    if !thorough && ((chunker == 3 || chunker == 4) && packs == 0) {
                        continue;
                    }
                    v.push(Cfg { version, compression, chunker, packs });
                }
            }
        }
    }
    v
}

fn content_tree(cfg: &Cfg, thorough: bool) -> Entry {
    // file lengths around the chunker's parameters, four fills, plus a file equal to a sibling tree
    let (lo, sz, hi) = match cfg.chunker {
        0 => (70usize, 5000usize, 9000usize),
        1 => (4096, 4096, 16384),
        2 => (64, 64, 256),
        k => {
            let s = [1usize, 2, 4096, 8000][k - 3];
            (s, s, s)
        }
    };
    let mut lens = vec![0usize, 1, 63, 64, 65, lo.saturating_sub(1), lo, lo + 1, sz + 1, hi.saturating_sub(1), hi, hi + 1, 2 * hi + 3];
    if thorough || cfg.chunker != 1 {
        lens.push(3 * hi + 17);
    }
    // byte-sized fixed chunkers: keep the number of blobs reasonable
    if cfg.chunker == 3 || cfg.chunker == 4 {
        lens = vec![0, 1, 2, 3, 63, 64, 65, 700];
    }
    lens.sort_unstable();
    lens.dedup();
    let mut t = Entry::dir(T0);
    for (i, l) in lens.iter().enumerate() {
        for f in ["zero", "ff", "p3", "lcg"] {
            if !thorough && (f == "ff" && i % 2 == 1 || f == "p3" && i % 2 == 0) {
                continue;
            }
            t.insert(&format!("c/{f}{i:02}"), Entry::file(fills(f, *l), T0 + 1));
        }
    }
    // a sibling directory and a file holding exactly its serialised tree
    t.insert("sib/x", Entry::file(b"sibling".to_vec(), T0 + 2));
    t.insert("sib/y", Entry::symlink(b"x".to_vec(), T0 + 3));
    if let Some(bytes) = crate::c02::tree_bytes_of(&t, "sib") {
        t.insert("treecopy", Entry::file(bytes, T0 + 4));
    }
    t
}

fn misc_trees() -> Vec<(String, Entry, bool)> {
    let mut v = Vec::new();
    // symlink targets
    let mut t = Entry::dir(T0);
    t.insert("rel", Entry::symlink(b"some/relative/target".to_vec(), T0 + 1));
    t.insert("abs", Entry::symlink(b"/absolute/target".to_vec(), T0 + 2));
    t.insert("dangling", Entry::symlink(b"does-not-exist".to_vec(), T0 + 3));
    t.insert("nonutf8", Entry::symlink(vec![b't', 0xff, 0xfe, b'x'], T0 + 4));
    t.insert("dotdot", Entry::symlink(b"../../..".to_vec(), T0 + 5));
    t.insert("longtarget", Entry::symlink(vec![b'l'; 1000], T0 + 6));
    v.push(("symlink-targets".to_string(), t, true));
    // hardlink pair and triple
    let mut t = Entry::dir(T0);
    for (names, ino) in [(vec!["h1", "h2"], 71u64), (vec!["d/t1", "d/t2", "t3"], 72u64)] {
        for n in &names {
            let mut e = Entry::file(lcg(ino, 200), T0 + 7);
            e.meta.inode = ino;
            e.meta.dev = 9;
            e.meta.links = names.len() as u64;
            t.insert(n, e);
        }
    }
    v.push(("hardlinks".to_string(), t, true));
    // nesting depth
    for depth in [1usize, 2, 10, 40] {
        let mut t = Entry::dir(T0);
        let path: Vec<String> = (0..depth).map(|i| format!("n{i}")).collect();
        t.insert(&format!("{}/leaf", path.join("/")), Entry::file(lcg(depth as u64, 150), T0 + 8));
        t.insert(&format!("{}/emptydir", path.join("/")), Entry::dir(T0 + 9));
        v.push((format!("depth-{depth}"), t, true));
    }
    // many files in one directory
    let mut t = Entry::dir(T0);
    for i in 0..100 {
        t.insert(&format!("many/f{i:03}"), Entry::file(lcg(i, 70 + (i as usize % 5)), T0 + 10));
    }
    v.push(("100-files".to_string(), t, true));
    // modes and mtimes
    let mut t = Entry::dir(T0);
    for (i, mode) in [0u32, 0o644, 0o755, 0o4755, 0o2755, 0o6711, 0o1777, 0o600, 0o7777].iter().enumerate() {
        let mut e = Entry::file(lcg(i as u64, 40), T0 + 11);
        e.meta.mode = Some(*mode);
        e.meta.uid = Some(0);
        e.meta.gid = Some(0);
        t.insert(&format!("mode{mode:o}"), e);
    }
    for (i, mt) in [0i128, 1, 1_600_000_000_123_456_789, 7_258_118_400_000_000_000, -1_000_000_000].iter().enumerate() {
        let mut e = Entry::file(lcg(20 + i as u64, 40), T0);
        e.meta = Meta { mode: Some(0o644), mtime: Some(*mt), ctime: Some(*mt), ..Default::default() };
        t.insert(&format!("mtime{i}"), e.clone());
        // the same with a recorded access time that differs from the modification time
        e.meta.atime = Some(1_000_000_000_000_000_000 + i as i128);
        t.insert(&format!("mtime{i}-atime"), e);
    }
    let mut d = Entry::dir(T0 + 12);
    d.meta.mode = Some(0o700);
    t.insert("dir700", d);
    v.push(("modes-and-times".to_string(), t, true));
    v
}

pub fn run(args: &Args, rep: &mut Report) {
    std::panic::set_hook(Box::new(|_| {}));
    let thorough = !args.quick();
    let sb = sandbox(&format!("c01-{}", args.shard));
    rep.set_meta("rule", json!("S1: every tree with <= n nodes over {dir,file,symlink} and names a,b,c; S2: one file per legal single-byte name (253) + pairs over a hostile set + long/unicode/escape-like names; S3: configuration grid {v1,v2} x compression x 7 chunkers x 3 pack sizes, each with a tree of files whose lengths sit on the chunker's min/avg/max boundaries x fills {zero, 0xff, period 3, LCG} and a file equal to a sibling tree; S4: symlink targets (relative, absolute, dangling, non-UTF-8, long), hardlink pair and triple, nesting depth 1..40, 100 files in one directory, modes incl. setuid/sticky, mtimes incl. 0, 1 ns, year 2200, negative. S5: the S1/S2/S4 trees which a file system can hold, materialised on tmpfs and backed up through the library's own file-system source (Repository::backup with as_path). Every case: ls + dump through the API, independent decoder, read_file_at over a boundary grid, check --read-data, and (where the file system can hold the names) restore into an empty tmpfs directory compared by lstat (ownership handling off; for trees with set-id/sticky bits also on, by name and numeric). Non-trivial = distinct cases"));
    if let Some(p) = &args.replay {
        let v: Value = serde_json::from_str(&fs::read_to_string(p).unwrap()).unwrap();
        let c = &v["case"];
        rep.inc("cases");
        let (cfg, tree, fsr) = match c["slice"].as_str() {
            Some("S1") => (DEFAULT_CFG, shapes(c["n"].as_u64().unwrap() as usize).into_iter().nth(c["index"].as_u64().unwrap() as usize).unwrap(), true),
            Some("S2") => {
                let name: Vec<u8> = c["name"].as_array().unwrap().iter().map(|x| x.as_u64().unwrap() as u8).collect();
                let mut t = Entry::dir(T0);
                if let Ent::Dir(m) = &mut t.ent {
                    _ = m.insert(name.clone(), Entry::file(lcg(5, 90), T0 + 1));
                }
                (DEFAULT_CFG, t, c["fs"].as_bool().unwrap_or(false))
            }
            Some("S5") => {
                FROM_FS.with(|f| *f.borrow_mut() = Some(sb.join("source")));
                match c["from"].as_str() {
                    Some("S1") => {
                        let n = c["n"].as_u64().unwrap() as usize;
                        (DEFAULT_CFG, shapes(n)[c["index"].as_u64().unwrap() as usize].clone(), c["index"].as_u64().unwrap() % 32 == 0)
                    }
                    Some("S2") => {
                        let name: Vec<u8> = serde_json::from_value(c["name"].clone()).unwrap();
                        let mut t = Entry::dir(T0);
                        if let Ent::Dir(m) = &mut t.ent {
                            _ = m.insert(name, Entry::file(lcg(5, 90), T0 + 1));
                        }
                        (DEFAULT_CFG, t, false)
                    }
                    _ => {
                        let (_, t, f) = misc_trees().into_iter().find(|(n, _, _)| Some(n.as_str()) == c["name"].as_str()).unwrap();
                        (DEFAULT_CFG, t, f)
                    }
                }
            }
            Some("S3") => {
                let cfg = Cfg::from_json(&c["config"]);
                let t = content_tree(&cfg, thorough);
                (cfg, t, true)
            }
            _ => {
                let (_, t, f) = misc_trees().into_iter().find(|(n, _, _)| Some(n.as_str()) == c["name"].as_str()).unwrap();
                (DEFAULT_CFG, t, f)
            }
        };
        if let Err((sig, msg)) = check_case(&cfg, &tree, fsr.then_some(&sb.join("restore"))) {
            rep.violation(sig, msg, c.clone());
        }
        _ = fs::remove_dir_all(&sb);
        return;
    }
    let mut idx = 0usize;
    let mut run_one = |cfg: &Cfg, tree: &Entry, fsr: bool, case: Value, slice: &str, rep: &mut Report| {
        idx += 1;
        if idx % args.nshards != args.shard {
            return;
        }
        if rep.over_budget() {
            return;
        }
        rep.inc("cases");
        rep.inc(&format!("cases:{slice}"));
        _ = rep.distinct("nontrivial", &case.to_string());
        if rep.samples.len() < 3 && slice != "S1" {
            rep.sample(case.clone());
        }
        let r = catch_unwind(AssertUnwindSafe(|| check_case(cfg, tree, fsr.then_some(&sb.join("restore")))));
        let r = match r {
            Ok(r) => r,
            Err(e) => Err((format!("C01/panic/{slice}"), e.downcast_ref::<String>().cloned().or_else(|| e.downcast_ref::<&str>().map(|s| (*s).to_string())).unwrap_or_default())),
        };
        if let Err((sig, msg)) = r {
            if !rep.has_violation(&sig) {
                rep.violation(sig, msg, case);
            } else {
                rep.inc("violations_raw");
            }
        }
    };
    // S1
    let n = if thorough { 5 } else { 4 };
    for (i, t) in shapes(n).iter().enumerate() {
        run_one(&DEFAULT_CFG, t, i % 4 == 0 || thorough, json!({"slice": "S1", "n": n, "index": i}), "S1", rep);
    }
    // S2
    for name in name_cases() {
        let mut t = Entry::dir(T0);
        if let Ent::Dir(m) = &mut t.ent {
            _ = m.insert(name.clone(), Entry::file(lcg(5, 90), T0 + 1));
        }
        // the file system holds any byte sequence without NUL and '/' up to 255 bytes
        let fs_ok = !name.contains(&0) && name.len() <= 255;
        run_one(&DEFAULT_CFG, &t, fs_ok, json!({"slice": "S2", "name": name, "fs": fs_ok, "name_lossy": String::from_utf8_lossy(&name)}), "S2", rep);
    }
    // S3
    for cfg in cfg_grid(thorough) {
        let t = content_tree(&cfg, thorough);
        run_one(&cfg, &t, cfg.packs == 2 || thorough, json!({"slice": "S3", "config": cfg.json()}), "S3", rep);
    }
    // S4
    for (name, t, fsr) in misc_trees() {
        for cfg in [DEFAULT_CFG, Cfg { version: 1, compression: None, chunker: 0, packs: 1 }] {
            run_one(&cfg, &t, fsr, json!({"slice": "S4", "name": name, "config": cfg.json()}), "S4", rep);
        }
    }
    // S5: the same trees (those the file system can hold) materialised on tmpfs and backed up
    // through the library's own file-system source
    FROM_FS.with(|f| *f.borrow_mut() = Some(sb.join("source")));
    for (i, t) in shapes(n).iter().enumerate() {
        if i % 8 == 0 || thorough {
            run_one(&DEFAULT_CFG, t, i % 32 == 0, json!({"slice": "S5", "from": "S1", "n": n, "index": i}), "S5", rep);
        }
    }
    for name in name_cases() {
        let fs_ok = !name.contains(&0) && name.len() <= 255;
        if !fs_ok {
            continue;
        }
        let mut t = Entry::dir(T0);
        if let Ent::Dir(m) = &mut t.ent {
            _ = m.insert(name.clone(), Entry::file(lcg(5, 90), T0 + 1));
        }
        run_one(&DEFAULT_CFG, &t, false, json!({"slice": "S5", "from": "S2", "name": name, "name_lossy": String::from_utf8_lossy(&name)}), "S5", rep);
    }
    for (name, t, fsr) in misc_trees() {
        if fsr {
            run_one(&DEFAULT_CFG, &t, true, json!({"slice": "S5", "from": "S4", "name": name}), "S5", rep);
        }
    }
    FROM_FS.with(|f| *f.borrow_mut() = None);
    _ = fs::remove_dir_all(&sb);
    let _: Option<LTree> = None;
    let _ = OsStrExt::as_bytes(std::ffi::OsStr::new(""));
}
