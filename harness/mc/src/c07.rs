//! C07 — identical content is stored once; unchanged data adds nothing.
//! SEQ over (source state, repository) pairs: every edit of an alphabet is applied between two
//! backups (fresh handle = index reloaded); the blobs written by the backup must be exactly the
//! chunks (independent reference chunker) and trees that did not exist before.

use std::collections::{BTreeMap, BTreeSet, HashMap};

use bytes::Bytes;
use rustic_core::{BackupOptions, FileType};
use serde::{Deserialize, Serialize};
use serde_json::json;
use vkit::{
    backend::Store,
    decode::{RawKey, hex_id, index_packs, open_blob, open_json, pack_header, sha256_hex},
    logical::model_tree,
    rep::{Env, POLY, backup_with, base_config, master_key, tiny_config},
    report::{Args, Report, h64},
    seq::{SeqModel, Viol, bfs},
    source::{Ent, Entry, MemSource},
};

use crate::{
    c02::T0,
    c06::{Params, ref_chunks},
    c13::lcg,
};

#[derive(Clone, Debug, Serialize, Deserialize, PartialEq, Eq)]
pub enum Edit {
    None,
    Touch,
    Prepend(usize),
    InsertAtBoundary(usize),
    InsertMidChunk(usize),
    DeleteRange,
    Overwrite,
    DupFile,
    Rename,
    MoveDir,
    AddChunkFile,
    /// the source goes back to what it was before the previous edit (A -> B -> A): every tree of A
    /// is already stored, but the parent snapshot is B
    Revert,
    /// two new files with identical new content, far apart in the walk; during this backup the
    /// shared indexer flushes after every second blob (hook), as it does after 50 000 blobs
    AddTwins,
    /// a probe whose effect is discarded (the state stays): two new files with identical content
    /// separated in the walk by `FAR` distinct new files, each filling at least one pack. All
    /// buffers between the archiver and the indexer are bounded and in order (two `parallel_map`
    /// windows of 2 x cores each way, rendezvous read-aheads, a writer queue of 1), so the pack of
    /// the first copy is written *and indexed* before the second copy reaches the packer's last
    /// filter - on every schedule. A second stored copy here is therefore not the recorded
    /// in-flight race but a new violation.
    AddFarTwins,
    /// only the metadata of directory `d` itself changes (its listing, hence its tree, stays)
    TouchDir,
    /// add a file whose bytes equal the serialised tree of directory `d` (default chunker only)
    AddTreeCopy,
}

#[derive(Clone)]
pub struct St {
    store: Store,
    tree: Entry,
    n: usize,
    last_tree_id: Option<String>,
    /// the source before the last edit
    prev: Option<Entry>,
}

pub struct C07 {
    raw: RawKey,
    tiny: bool,
}

impl C07 {
    fn params(&self) -> Params {
        let poly = u64::from_str_radix(POLY, 16).unwrap();
        if self.tiny {
            Params { fixed: false, poly, size: 64, min: 64, max: 256 }
        } else {
            Params { fixed: false, poly, size: 1 << 20, min: 512 * 1024, max: 8 << 20 }
        }
    }
    fn chunk_ids(&self, data: &[u8]) -> Vec<String> {
        let lens = ref_chunks(data, &self.params(), &mut HashMap::new());
        let mut out = Vec::new();
        let mut p = 0;
        for l in lens {
            out.push(sha256_hex(&data[p..p + l]));
            p += l;
        }
        out
    }
    fn fresh(&self, tree: Entry) -> St {
        let env = Env::single();
        let mut cfg = if self.tiny { tiny_config(2) } else { base_config(2) };
        cfg.datapack_size = Some(700);
        cfg.datapack_growfactor = Some(0);
        cfg.treepack_size = Some(700);
        cfg.treepack_growfactor = Some(0);
        _ = env.init_with(cfg).expect("init");
        let s0 = St { store: env.store(), tree, n: 0, last_tree_id: None, prev: None };
        // the initial backup (checked like every other step)
        self.step(&s0, &Edit::None, &mut Report::default()).expect("initial backup")
    }
}

fn big(t: &Entry) -> Vec<u8> {
    match &t.get("a/big").expect("a/big").ent {
        Ent::File(d) => d.to_vec(),
        _ => unreachable!(),
    }
}

fn set_big(t: &mut Entry, data: Vec<u8>, mtime: i64) {
    t.insert("a/big", Entry::file(data, mtime));
}

fn data_index(raw: &RawKey, store: &Store) -> (BTreeSet<String>, BTreeSet<String>) {
    let mut d = BTreeSet::new();
    let mut t = BTreeSet::new();
    for p in index_packs(raw, store).unwrap_or_default() {
        if p.marked {
            continue;
        }
        for b in p.blobs {
            if b.tpe == 0 { d.insert(b.id) } else { t.insert(b.id) };
        }
    }
    (d, t)
}

impl SeqModel for C07 {
    type State = St;
    type Action = Edit;

    fn initial(&self) -> Vec<(String, St)> {
        let mut out = Vec::new();
        // (1) a multi-chunk file plus small files
        let mut t = Entry::dir(T0);
        t.insert("a/big", Entry::file(lcg(1, if self.tiny { 3000 } else { 3000 }), T0 + 1));
        t.insert("a/small", Entry::file(lcg(2, 90), T0 + 1));
        t.insert("d/x", Entry::file(lcg(3, 200), T0 + 1));
        out.push(("multi-chunk".to_string(), self.fresh(t)));
        // (2) two files sharing a region
        let mut t = Entry::dir(T0);
        let shared = lcg(9, 1000);
        let mut a = lcg(10, 500);
        a.extend_from_slice(&shared);
        let mut b = lcg(11, 300);
        b.extend_from_slice(&shared);
        t.insert("a/big", Entry::file(a, T0 + 1));
        t.insert("d/other", Entry::file(b, T0 + 1));
        out.push(("shared-region".to_string(), self.fresh(t)));
        // (3) repetitive content: many identical chunks inside one file
        let mut t = Entry::dir(T0);
        t.insert("a/big", Entry::file(vec![7u8; 2000], T0 + 1));
        t.insert("d/zeros", Entry::file(vec![0u8; 700], T0 + 1));
        out.push(("repetitive".to_string(), self.fresh(t)));
        out
    }

    fn actions(&self, s: &St) -> Vec<Edit> {
        let mut v = vec![
            Edit::None,
            Edit::Touch,
            Edit::Prepend(1),
            Edit::Prepend(64),
            Edit::InsertAtBoundary(5),
            Edit::InsertMidChunk(5),
            Edit::DeleteRange,
            Edit::Overwrite,
            Edit::DupFile,
            Edit::Rename,
            Edit::MoveDir,
            Edit::AddChunkFile,
            Edit::TouchDir,
            Edit::AddTwins,
        ];
        if s.n <= 2 {
            v.push(Edit::AddFarTwins);
        }
        if s.prev.is_some() {
            v.push(Edit::Revert);
        }
        if !self.tiny {
            v.push(Edit::AddTreeCopy);
        }
        v
    }

    fn action_class(&self, a: &Edit) -> String {
        format!("{a:?}").split('(').next().unwrap().to_string()
    }

    fn canon(&self, s: &St) -> String {
        // the repository content is a function of the history of sources; blobs are what matters
        let (d, t) = data_index(&self.raw, &s.store);
        format!(
            "{}|{}|{}|{}|{}",
            h64(&format!("{:?}", model_tree("r", &s.tree))),
            h64(&d),
            h64(&t),
            s.n.min(1),
            s.prev.as_ref().map_or(String::new(), |p| h64(&format!("{:?}", model_tree("r", p))))
        )
    }

    fn invariant(&self, _s: &St, _rep: &mut Report) -> Result<(), Viol> {
        Ok(())
    }

    fn step(&self, s: &St, a: &Edit, rep: &mut Report) -> Result<St, Viol> {
        let mut n = s.clone();
        n.prev = Some(s.tree.clone());
        let mt = T0 + 100 + s.n as i64;
        let cur = big(&s.tree);
        let cuts: Vec<usize> = ref_chunks(&cur, &self.params(), &mut HashMap::new())
            .iter()
            .scan(0usize, |acc, l| {
                *acc += l;
                Some(*acc)
            })
            .collect();
        let boundary = cuts.get(2).copied().unwrap_or(cur.len() / 2).min(cur.len());
        let mid = cuts.get(3).map_or(cur.len() / 3, |c| c.saturating_sub(17)).min(cur.len());
        let mut edit_offset: Option<usize> = None;
        match a {
            Edit::None => {}
            Edit::Revert => {
                if let Some(p) = &s.prev {
                    n.tree = p.clone();
                }
            }
            Edit::AddTwins => {
                let content = lcg(5000 + s.n as u64, 700);
                n.tree.insert(&format!("a/twin{}", s.n), Entry::file(content.clone(), mt));
                n.tree.insert(&format!("zz/twin{}", s.n), Entry::file(content, mt));
            }
            Edit::AddFarTwins => {
                let content = lcg(7000 + s.n as u64, 700);
                n.tree.insert(&format!("a/far{}", s.n), Entry::file(content.clone(), mt));
                for k in 0..FAR {
                    n.tree.insert(&format!("m/f{k:04}"), Entry::file(lcg(100_000 + (s.n * FAR + k) as u64, 700), mt));
                }
                n.tree.insert(&format!("zz/far{}", s.n), Entry::file(content, mt));
            }
            Edit::TouchDir => {
                if let Some(d) = n.tree.get_mut("d") {
                    d.meta.mtime = Some(i128::from(mt) * 1_000_000_000);
                    d.meta.ctime = d.meta.mtime;
                }
            }
            Edit::Touch => {
                let mut e = s.tree.get("a/small").cloned().unwrap_or_else(|| Entry::file(lcg(2, 90), mt));
                e.meta.mtime = Some(i128::from(mt) * 1_000_000_000);
                e.meta.ctime = e.meta.mtime;
                n.tree.insert("a/small", e);
            }
            Edit::Prepend(k) => {
                let mut d = lcg(1000 + s.n as u64, *k);
                d.extend_from_slice(&cur);
                set_big(&mut n.tree, d, mt);
                edit_offset = Some(0);
            }
            Edit::InsertAtBoundary(k) | Edit::InsertMidChunk(k) => {
                let o = if matches!(a, Edit::InsertAtBoundary(_)) { boundary } else { mid };
                let mut d = cur[..o].to_vec();
                d.extend_from_slice(&lcg(2000 + s.n as u64, *k));
                d.extend_from_slice(&cur[o..]);
                set_big(&mut n.tree, d, mt);
                edit_offset = Some(o);
            }
            Edit::DeleteRange => {
                let o = mid.min(cur.len());
                let e = (o + 37).min(cur.len());
                let mut d = cur[..o].to_vec();
                d.extend_from_slice(&cur[e..]);
                set_big(&mut n.tree, d, mt);
                edit_offset = Some(o);
            }
            Edit::Overwrite => {
                let o = mid.min(cur.len());
                let e = (o + 10).min(cur.len());
                let mut d = cur.clone();
                for (i, b) in d[o..e].iter_mut().enumerate() {
                    *b = b.wrapping_add(1 + i as u8);
                }
                set_big(&mut n.tree, d, mt);
                edit_offset = Some(o);
            }
            Edit::DupFile => {
                n.tree.insert(&format!("d/copy{}", s.n), Entry::file(cur.clone(), mt));
            }
            Edit::Rename => {
                if let Some(e) = n.tree.remove("a/small") {
                    n.tree.insert(&format!("a/renamed{}", s.n), e);
                }
            }
            Edit::MoveDir => {
                if let Some(e) = n.tree.remove("d") {
                    n.tree.insert(&format!("moved{}", s.n), e);
                    n.tree.insert("d/keep", Entry::file(lcg(5, 70), mt));
                }
            }
            Edit::AddChunkFile => {
                let (st, en) = (cuts.first().copied().unwrap_or(0), cuts.get(1).copied().unwrap_or(cur.len()));
                n.tree.insert(&format!("d/chunk{}", s.n), Entry::file(cur[st..en].to_vec(), mt));
            }
            Edit::AddTreeCopy => {
                if let Some(bytes) = crate::c02::tree_bytes_of(&s.tree, "a") {
                    n.tree.insert(&format!("d/treecopy{}", s.n), Entry::file(bytes, mt));
                }
            }
        }
        // ---- expectation from the source model
        let (b_data, b_tree) = data_index(&self.raw, &s.store);
        let mut all = Vec::new();
        n.tree.walk(b"", &mut all);
        let mut needed: BTreeSet<String> = BTreeSet::new();
        for (_, e) in &all {
            if let Ent::File(d) = &e.ent {
                needed.extend(self.chunk_ids(d));
            }
        }
        let expected_new: BTreeSet<String> = needed.difference(&b_data).cloned().collect();
        // ---- run the real backup with a fresh handle
        let env = Env::from_store(s.store.clone());
        // every second backup opens its ids-only index through the variant which first compares the
        // index files with the pack listing (`to_indexed_ids_checked`): same answers expected
        let repo = if s.n % 2 == 1 { env.open_ids_checked() } else { env.open_ids() }.map_err(|e| ("C07/open".to_string(), e.display_log()))?;
        let label = format!("s{}", s.n);
        if matches!(a, Edit::AddTwins | Edit::AddFarTwins) && std::env::var("C07_NO_FLUSH").is_err() {
            rustic_core::verif::limits::set_indexer_max_count(2);
        }
        let snap = backup_with(&repo, &MemSource::new("r", n.tree.clone()), &label, T0 + 1000 + s.n as i64, &vkit::rep::bopts());
        rustic_core::verif::limits::set_indexer_max_count(0);
        let snap = snap.map_err(|e| ("C07/backup/error".to_string(), e.display_log()))?;
        n.store = env.store();
        n.n += 1;
        // ---- what was written: packs that did not exist before
        let mut written_data: Vec<String> = Vec::new();
        let mut written_tree: Vec<String> = Vec::new();
        let mut plain_bytes = 0u64;
        let mut new_packs = 0usize;
        for (pid, _) in n.store.list(FileType::Pack) {
            if s.store.get(FileType::Pack, &pid).is_some() {
                continue;
            }
            new_packs += 1;
            let data = n.store.get(FileType::Pack, &pid).unwrap();
            let hdr = pack_header(&self.raw, data).map_err(|e| ("C07/pack-decode".to_string(), e))?;
            for b in hdr {
                let plain = open_blob(&self.raw, data, &b).map_err(|e| ("C07/blob-decode".to_string(), e))?;
                plain_bytes += plain.len() as u64;
                if b.tpe == 0 { written_data.push(b.id) } else { written_tree.push(b.id) };
            }
        }
        let wd: BTreeSet<String> = written_data.iter().cloned().collect();
        if wd.len() != written_data.len() && matches!(a, Edit::AddFarTwins) {
            return Err((
                "C07/in-run-duplicate-data/first-copy-indexed".into(),
                format!("edit {a:?}: a data blob was written twice in one run ({} written, {} distinct) although at least {FAR} packs were written and indexed between the two copies", written_data.len(), wd.len()),
            ));
        }
        if wd.len() != written_data.len() {
            // Timing dependent in the library (a blob whose pack is still in the writer's queue is not
            // yet known to the packers): recorded where it is seen, without the engine's demand that
            // a violation re-executes identically - that demand would turn the race into a harness
            // failure. The exploration goes on from the resulting state.
            let sig = "C07/in-run-duplicate-data".to_string();
            if !rep.has_violation(&sig) {
                rep.violation(
                    sig,
                    format!("edit {a:?}: a data blob was written twice in one run ({} written, {} distinct)", written_data.len(), wd.len()),
                    json!({"scenario": if self.tiny { "tiny" } else { "default-chunker" }, "initial": "multi-chunk", "history": [format!("{a:?}")], "note": "timing dependent; see known_findings.txt"}),
                );
            }
            rep.inc("in_run_duplicates_seen");
            // the remaining clauses of this step count blobs and would only restate the duplicate
            n.last_tree_id = Some(snap.tree.to_hex().to_string());
            return Ok(n);
        }
        if wd != expected_new {
            let extra: Vec<_> = wd.difference(&expected_new).map(|x| x[..8].to_string()).collect();
            let missing: Vec<_> = expected_new.difference(&wd).map(|x| x[..8].to_string()).collect();
            let sig = if !extra.is_empty() && extra.iter().all(|x| b_data.iter().any(|b| b.starts_with(x))) {
                "C07/data/existing-blob-uploaded-again"
            } else if !missing.is_empty() {
                "C07/data/new-chunk-not-uploaded"
            } else {
                "C07/data/unexpected-blob"
            };
            return Err((sig.into(), format!("edit {a:?}: uploaded but not expected {extra:?}; expected but not uploaded {missing:?} ({} chunks needed, {} existed)", needed.len(), b_data.len())));
        }
        // trees: written ⊆ referenced \ existing; referenced ⊆ existing ∪ written
        let root = snap.tree.to_hex().to_string();
        let mut referenced: BTreeSet<String> = BTreeSet::new();
        let mut stack = vec![root.clone()];
        let (_, all_trees_after) = data_index(&self.raw, &n.store);
        while let Some(t) = stack.pop() {
            if !referenced.insert(t.clone()) {
                continue;
            }
            if !all_trees_after.contains(&t) {
                return Err(("C07/tree/not-indexed".into(), format!("tree {} referenced by the new snapshot is not indexed as a tree", &t[..8])));
            }
            // read the tree through the independent decoder
            let blob = crate::c07::read_tree(&self.raw, &n.store, &t).map_err(|e| ("C07/tree/read".to_string(), e))?;
            for node in blob["nodes"].as_array().cloned().unwrap_or_default() {
                if let Some(st) = node["subtree"].as_str() {
                    stack.push(st.to_string());
                }
            }
        }
        let wt: BTreeSet<String> = written_tree.iter().cloned().collect();
        if wt.len() != written_tree.len() {
            return Err(("C07/in-run-duplicate-tree".into(), "a tree blob was written twice in one run".into()));
        }
        for t in &wt {
            if b_tree.contains(t) {
                return Err(("C07/tree/existing-tree-uploaded-again".into(), format!("tree {} existed before and was written again", &t[..8])));
            }
            if !referenced.contains(t) {
                return Err(("C07/tree/unreferenced-tree-written".into(), format!("tree {} was written but the snapshot does not reference it", &t[..8])));
            }
        }
        // unchanged source: nothing but the snapshot file
        if *a == Edit::None && s.n > 0 {
            if new_packs != 0 {
                return Err(("C07/unchanged/packs-written".into(), format!("an unchanged source wrote {new_packs} packs")));
            }
            if s.last_tree_id.as_deref() != Some(&root) {
                return Err(("C07/unchanged/tree-id".into(), format!("tree id changed from {:?} to {root}", s.last_tree_id)));
            }
            rep.inc("unchanged_backups");
        }
        // summary counters
        if let Some(sum) = &snap.summary {
            if sum.data_blobs != wd.len() as u64 || sum.tree_blobs != wt.len() as u64 {
                return Err(("C07/summary/blob-counts".into(), format!("summary says {} data / {} tree blobs, packs hold {} / {}", sum.data_blobs, sum.tree_blobs, wd.len(), wt.len())));
            }
            if sum.data_added != plain_bytes {
                return Err(("C07/summary/data-added".into(), format!("summary data_added {} but {} plaintext bytes were written", sum.data_added, plain_bytes)));
            }
        }
        // locality of an edit inside the big file
        if let Some(o) = edit_offset {
            let new_big = big(&n.tree);
            let old_ids: BTreeSet<String> = self.chunk_ids(&cur).into_iter().collect();
            let new_ids = self.chunk_ids(&new_big);
            let reused = new_ids.iter().filter(|i| old_ids.contains(*i)).count();
            if reused > 0 {
                rep.inc("edits_with_reused_chunks");
            }
            if new_ids.iter().skip_while(|i| old_ids.contains(*i)).any(|i| old_ids.contains(i)) && o > 0 {
                rep.inc("edits_resynchronised_after_change");
            }
        }
        // typed identity: a data blob and a tree with equal id are both indexed
        if matches!(a, Edit::AddTreeCopy) {
            let (d_after, t_after) = data_index(&self.raw, &n.store);
            if d_after.intersection(&t_after).next().is_some() {
                rep.inc("tree_data_id_collisions_kept");
            } else {
                return Err(("C07/typed-identity".into(), "a file equal to a serialised tree did not yield a data blob next to the tree blob with the same id".into()));
            }
        }
        if matches!(a, Edit::AddFarTwins) {
            // a probe: the exploration goes on from the state it started in
            rep.inc("far_twins_probes");
            return Ok(s.clone());
        }
        n.last_tree_id = Some(root);
        Ok(n)
    }
}

/// files between the far twins: more than every bounded buffer between the walk and the indexer
/// can hold together (2 x (2 x 2 x cores + cores) + read-aheads + writer queue; 16 cores -> ~170)
const FAR: usize = 400;
const _: () = assert!(FAR > 0);

/// read a tree blob through the independent decoder
pub fn read_tree(raw: &RawKey, store: &Store, id: &str) -> Result<serde_json::Value, String> {
    for p in index_packs(raw, store)? {
        if p.marked {
            continue;
        }
        if let Some(b) = p.blobs.iter().find(|b| b.tpe == 1 && b.id == id) {
            let pack = store.get(FileType::Pack, &p.pack_id.parse().map_err(|_| "pack id")?).ok_or("pack missing")?;
            let plain = open_blob(raw, pack, b)?;
            return serde_json::from_slice(&plain).map_err(|e| e.to_string());
        }
    }
    Err(format!("tree {id} not in index"))
}

pub fn run(args: &Args, rep: &mut Report) {
    let raw = RawKey::from_master(&master_key());
    let quick = args.quick();
    let depth = if quick { 3 } else { 4 };
    _ = (Bytes::new(), hex_id, open_json, BTreeMap::<u8, u8>::new());
    rep.set_meta("bounds", json!(format!("BFS depth {depth} (after an initial backup) over 16 edits (incl. reverting the previous edit, touching a directory, twin files under a mid-run index flush, and - up to the second backup - twins 400 packs apart) from 3 base sources with the tiny rabin chunker (64/64/256), depth {} with the default chunker incl. files equal to a serialised tree", depth - 1)));
    let m = C07 { raw: raw.clone(), tiny: true };
    let m2 = C07 { raw, tiny: false };
    if let Some(p) = &args.replay {
        let v: serde_json::Value = serde_json::from_str(&std::fs::read_to_string(p).unwrap()).unwrap();
        if v["case"]["scenario"].as_str() == Some("default-chunker") {
            vkit::seq::replay(&m2, &v["case"], rep);
        } else {
            vkit::seq::replay(&m, &v["case"], rep);
        }
        return;
    }
    bfs(&m, depth, 100_000, args, rep);
    let before = rep.violations.len();
    bfs(&m2, depth - 1, 100_000, args, rep);
    for v in rep.violations.iter_mut().skip(before) {
        v.case["scenario"] = json!("default-chunker");
    }
}
