//! `mc <property> [--tier quick|thorough] [--shard i/n] [--out file] [--replay file]`
use vkit::report::{Args, Report};

mod c01;
mod c02;
mod c03;
mod c04;
mod c05;
mod c06;
mod c07;
mod c08;
mod c09;
mod c10;
mod c11;
mod c12;
mod c13;
mod c14;
mod c15;
mod c16;
mod c17;
mod c18;
mod c19;
mod smoke;

fn main() {
    // deterministic time zone for every serialisation of times
    // SAFETY-free: set before any thread is spawned
    let mut args = Args::parse();
    // a violation recorded for a harness step that failed is replayed by re-running its shard
    if let Some(p) = &args.replay {
        if let Ok(v) = std::fs::read_to_string(p).map_err(|_| ()).and_then(|s| serde_json::from_str::<serde_json::Value>(&s).map_err(|_| ())) {
            if let Some(sh) = v["case"]["rerun_shard"].as_str() {
                if let Some((i, n)) = sh.split_once('/') {
                    args.shard = i.parse().unwrap_or(0);
                    args.nshards = n.parse().unwrap_or(1);
                    args.tier = if v["case"]["tier"].as_str() == Some("thorough") { vkit::report::Tier::Thorough } else { vkit::report::Tier::Quick };
                    args.replay = None;
                }
            }
        }
    }
    let mut rep = Report::new(&args);
    let r = std::panic::catch_unwind(std::panic::AssertUnwindSafe(|| dispatch(&args, &mut rep)));
    if let Err(e) = r {
        let msg = e.downcast_ref::<String>().cloned().or_else(|| e.downcast_ref::<&str>().map(|s| (*s).to_string())).unwrap_or_default();
        // Steps which only concern the machinery itself keep their meaning (exit 2). Every other
        // step of a harness is a call into the library on a healthy repository which the harness
        // relies on (init, open, backup, forget, prune, ...): the harness is deterministic and does
        // not fail there on a tree where the property holds, so a failure is reported as a violation.
        const MACHINERY: [&str; 18] = [
            "sandbox", "write report", "spawn smoke child", "exe", "replay file", "wait", "json", "report json", "master key json",
            "config json", "driver", "schedule", "criterion", "prune option index", "scenario", "subject", "action", "No space left",
        ];
        let label: String = msg.split(':').next().unwrap_or("").trim().chars().take(60).collect();
        if MACHINERY.iter().any(|m| label == *m || msg.contains("No space left on device")) {
            rep.machinery(format!("harness panic: {msg}"));
        } else {
            let short: String = label.chars().map(|c| if c.is_alphanumeric() { c } else { '-' }).collect();
            rep.violation(
                format!("{}/harness-step-failed/{short}", args.prop.to_uppercase()),
                format!("a library call the harness relies on failed or panicked: {msg}"),
                serde_json::json!({"rerun_shard": format!("{}/{}", args.shard, args.nshards), "tier": if args.quick() { "quick" } else { "thorough" }}),
            );
        }
    }
    rep.finish(&args);
}

fn dispatch(args: &Args, rep: &mut Report) {
    match args.prop.to_lowercase().as_str() {
        "c10" => c10::run(args, rep),
        "c11" => c11::run(args, rep),
        "c12" => c12::run(args, rep),
        "c13" => c13::run(args, rep),
        "c14" => c14::run(args, rep),
        "c15" => c15::run(args, rep),
        "c16" => c16::run(args, rep),
        "c17" => c17::run(args, rep),
        "c18" => c18::run(args, rep),
        "c19" => c19::run(args, rep),
        "c18-smoke" => std::process::exit(c18::smoke_child(args.extra.first().map_or("", String::as_str))),
        "smoke" => smoke::run(args, rep),
        "c01" => c01::run(args, rep),
        "c02" => c02::run(args, rep),
        "c03" => c03::run(args, rep),
        "c04" => c04::run(args, rep),
        "c05" => c05::run(args, rep),
        "c06" => c06::run(args, rep),
        "c07" => c07::run(args, rep),
        "c08" => c08::run(args, rep),
        "c09" => c09::run(args, rep),
        other => {
            eprintln!("unknown property {other}");
            std::process::exit(2);
        }
    }
}
