//! `mc <property> [--tier quick|thorough] [--shard i/n] [--out file] [--replay file]`
use vkit::report::{Args, Report};

mod c01;
mod c02;
mod c03;
mod c04;
mod c05;
mod c06;
mod c07;
mod c08;
mod c09;
mod c10;
mod c11;
mod c12;
mod c13;
mod c14;
mod c15;
mod c16;
mod c17;
mod c18;
mod c19;
mod smoke;

fn main() {
    // deterministic time zone for every serialisation of times
    // SAFETY-free: set before any thread is spawned
    let args = Args::parse();
    let mut rep = Report::new(&args);
    match args.prop.to_lowercase().as_str() {
        "c10" => c10::run(&args, &mut rep),
        "c11" => c11::run(&args, &mut rep),
        "c12" => c12::run(&args, &mut rep),
        "c13" => c13::run(&args, &mut rep),
        "c14" => c14::run(&args, &mut rep),
        "c15" => c15::run(&args, &mut rep),
        "c16" => c16::run(&args, &mut rep),
        "c17" => c17::run(&args, &mut rep),
        "c18" => c18::run(&args, &mut rep),
        "c19" => c19::run(&args, &mut rep),
        "c18-smoke" => std::process::exit(c18::smoke_child(args.extra.first().map_or("", String::as_str))),
        "smoke" => smoke::run(&args, &mut rep),
        "c01" => c01::run(&args, &mut rep),
        "c02" => c02::run(&args, &mut rep),
        "c03" => c03::run(&args, &mut rep),
        "c04" => c04::run(&args, &mut rep),
        "c05" => c05::run(&args, &mut rep),
        "c06" => c06::run(&args, &mut rep),
        "c07" => c07::run(&args, &mut rep),
        "c08" => c08::run(&args, &mut rep),
        "c09" => c09::run(&args, &mut rep),
        other => {
            eprintln!("unknown property {other}");
            std::process::exit(2);
        }
    }
    rep.finish(&args);
}
