//! C08 — pack files, their headers and the index always agree; the index is rebuildable.
//! Scripted histories that exercise every pack writer x configuration grid; every pack ever
//! written is decoded independently; every subset of index files is removed before repair-index.

use std::collections::BTreeMap;

use rustic_core::{
    BackupOptions, FileType, LimitOption, PruneOptions, RepairIndexOptions, RepairSnapshotsOptions,
    RewriteOptions, RewriteTreesOptions, SnapshotOptions, last_modified_node,
};
use serde_json::{Value, json};
use vkit::{
    backend::Store,
    decode::{RawKey, hex_id, id_of, index_packs, open_blob, pack_header},
    logical::{LTree, diff, model_tree},
    rep::{Env, backup_with, base_config, check_errors, master_key, read_all, tiny_config},
    report::{Args, Report},
    source::MemSource,
};

use crate::c02::{T0, source};

#[derive(Clone, Debug)]
struct Cfg {
    version: u32,
    compression: Option<i32>,
    data_pack: u32,
    tree_pack: u32,
    tiny_chunks: bool,
    /// compression level set through `apply_config` between the second and the third backup
    switch_to: Option<i32>,
}

impl Cfg {
    fn json(&self) -> Value {
        json!({"version": self.version, "compression": self.compression, "data_pack": self.data_pack, "tree_pack": self.tree_pack, "tiny_chunks": self.tiny_chunks, "switch_to": self.switch_to})
    }
    fn from_json(v: &Value) -> Self {
        Self {
            version: v["version"].as_u64().unwrap() as u32,
            compression: v["compression"].as_i64().map(|x| x as i32),
            data_pack: v["data_pack"].as_u64().unwrap() as u32,
            tree_pack: v["tree_pack"].as_u64().unwrap() as u32,
            tiny_chunks: v["tiny_chunks"].as_bool().unwrap(),
            switch_to: v["switch_to"].as_i64().map(|x| x as i32),
        }
    }
    fn config(&self, id: &str) -> rustic_core::repofile::ConfigFile {
        let mut c = if self.tiny_chunks { tiny_config(self.version) } else { base_config(self.version) };
        c.compression = self.compression;
        c.datapack_size = Some(self.data_pack);
        c.datapack_growfactor = Some(0);
        c.treepack_size = Some(self.tree_pack);
        c.treepack_growfactor = Some(0);
        c.id = serde_json::from_value(json!(id.repeat(64))).unwrap();
        c
    }
}

/// verify every pack of the store completely against its own header and the index
fn verify_packs(raw: &RawKey, store: &Store, rep: &mut Report) -> Result<(), (String, String)> {
    let idx = index_packs(raw, store).map_err(|e| ("C08/index-decode".to_string(), e))?;
    for (pid, size) in store.list(FileType::Pack) {
        let data = store.get(FileType::Pack, &pid).unwrap();
        let h = hex_id(&pid);
        rep.inc("packs_verified");
        if id_of(data) != pid {
            return Err(("C08/pack-name".into(), format!("pack {} is not named by the hash of its bytes", &h[..8])));
        }
        // trailer and header; entries in file order with contiguous offsets (checked inside)
        let hdr = pack_header(raw, data).map_err(|e| ("C08/header".to_string(), format!("pack {}: {e}", &h[..8])))?;
        if hdr.is_empty() {
            return Err(("C08/empty-pack".into(), format!("pack {} holds no blob", &h[..8])));
        }
        if hdr.iter().any(|b| b.tpe != hdr[0].tpe) {
            return Err(("C08/mixed-pack".into(), format!("pack {} mixes tree and data blobs", &h[..8])));
        }
        if hdr.iter().any(|b| b.uncompressed.is_some()) && hdr.iter().any(|b| b.uncompressed.is_none()) {
            rep.inc("packs_mixing_encodings");
        }
        for b in &hdr {
            rep.inc("blobs_verified");
            let plain = open_blob(raw, data, b).map_err(|e| ("C08/blob".to_string(), format!("pack {}: {e}", &h[..8])))?;
            if let Some(ul) = b.uncompressed {
                if ul as usize != plain.len() {
                    return Err(("C08/uncompressed-length".into(), format!("pack {} blob {}: header says {ul}, blob has {}", &h[..8], &b.id[..8], plain.len())));
                }
            }
        }
        let listed: Vec<_> = idx.iter().filter(|p| p.pack_id == h).collect();
        if listed.is_empty() {
            return Err(("C08/unindexed-pack".into(), format!("pack {} is not listed by any index", &h[..8])));
        }
        for l in listed {
            let a: Vec<_> = l.blobs.iter().map(|b| (b.tpe, &b.id, b.offset, b.length, b.uncompressed)).collect();
            let b: Vec<_> = hdr.iter().map(|b| (b.tpe, &b.id, b.offset, b.length, b.uncompressed)).collect();
            if a != b {
                return Err(("C08/index-vs-header".into(), format!("pack {}: index lists {a:?}, header lists {b:?}", &h[..8])));
            }
            // size implied by the index entry == real size
            let implied: u64 = l.size.unwrap_or_else(|| 36 + l.blobs.iter().map(|b| u64::from(b.length) + if b.uncompressed.is_some() { 41 } else { 37 }).sum::<u64>());
            if implied != u64::from(size) {
                return Err(("C08/pack-size".into(), format!("pack {}: index implies {implied} bytes, file has {size}", &h[..8])));
            }
        }
    }
    for p in &idx {
        if store.get(FileType::Pack, &p.pack_id.parse().unwrap()).is_none() {
            return Err(("C08/dangling-index-entry".into(), format!("index lists pack {} which does not exist", &p.pack_id[..8])));
        }
    }
    Ok(())
}

fn compare(env: &Env, model: &BTreeMap<String, LTree>, what: &str) -> Result<(), (String, String)> {
    let got = read_all(env).map_err(|e| (format!("C08/{what}/read"), e))?;
    for (l, t) in model {
        match got.get(l) {
            None => return Err((format!("C08/{what}/read"), format!("snapshot {l} missing"))),
            Some(g) => {
                if let Some(d) = diff(t, g) {
                    return Err((format!("C08/{what}/read"), format!("snapshot {l}: {d}")));
                }
            }
        }
    }
    Ok(())
}

/// remove every subset of index files, repair the index, compare
fn subsets(raw: &RawKey, env: &Env, model: &BTreeMap<String, LTree>, rep: &mut Report, max_files: usize) -> Result<(), (String, String)> {
    let base = env.store();
    let ids = base.ids(FileType::Index);
    if ids.len() > max_files {
        rep.note(format!("state with {} index files: only subsets of the first {max_files} are removed", ids.len()));
    }
    let k = ids.len().min(max_files);
    // mask 0 (nothing removed) is explored with read_all only: every pack header is re-read
    for (mask, read_all_opt) in (0..(1u32 << k)).flat_map(|m| [(m, false), (m, true)]).filter(|(m, ra)| *m != 0 || *ra) {
        let mut st = base.clone();
        for (i, id) in ids.iter().take(k).enumerate() {
            if mask & (1 << i) != 0 {
                _ = st.del(FileType::Index, id);
            }
        }
        // all index files removed is the statement's headline case
        rep.inc("index_subsets_removed");
        let e2 = env.fork(st);
        let repo = e2.open().map_err(|e| ("C08/repair-index/open".to_string(), e.display_log()))?;
        if read_all_opt {
            rep.inc("repair_index_read_all");
        }
        repo.repair_index(&RepairIndexOptions::default().read_all(read_all_opt), false)
            .map_err(|e| ("C08/repair-index/error".to_string(), format!("subset {mask:b}: {}", e.display_log())))?;
        compare(&e2, model, "repair-index").map_err(|(s, m)| (s, format!("after removing index subset {mask:b} of {k} and repair-index (read_all={read_all_opt}): {m}")))?;
        verify_packs(raw, &e2.store(), rep).map_err(|(s, m)| (format!("{s}[after-repair-index]"), m))?;
        let errs = check_errors(&e2, false).map_err(|e| ("C08/repair-index/check".to_string(), e))?;
        if !errs.is_empty() {
            return Err(("C08/repair-index/check".into(), format!("subset {mask:b}: {}", errs.join(" | "))));
        }
    }
    Ok(())
}

fn es<T>(what: &str, r: rustic_core::RusticResult<T>) -> Result<T, (String, String)> {
    r.map_err(|e| (format!("C08/{what}/error"), e.display_log()))
}

fn run_history(raw: &RawKey, cfg: &Cfg, other: &Cfg, rep: &mut Report) -> Result<(), (String, String)> {
    let env = Env::single();
    _ = es("init", env.init_with(cfg.config("1")))?;
    let mut model: BTreeMap<String, LTree> = BTreeMap::new();
    let bk = |env: &Env, v: usize, model: &mut BTreeMap<String, LTree>| -> Result<(), (String, String)> {
        let repo = es("open", env.open_ids())?;
        _ = es("backup", backup_with(&repo, &MemSource::new("r", source(v)), &format!("s{v}"), T0 + 1000 + v as i64, &vkit::rep::bopts()))?;
        _ = model.insert(format!("s{v}"), model_tree("r", &source(v)));
        Ok(())
    };
    let step = |name: &str, env: &Env, model: &BTreeMap<String, LTree>, rep: &mut Report| -> Result<(), (String, String)> {
        rep.inc("history_steps");
        verify_packs(raw, &env.store(), rep).map_err(|(s, m)| (s, format!("after {name}: {m}")))?;
        compare(env, model, name)
    };
    // backup writer
    bk(&env, 0, &mut model)?;
    bk(&env, 1, &mut model)?;
    step("backup", &env, &model, rep)?;
    subsets(raw, &env, &model, rep, 4)?;
    // prune with re-encoding repack
    let forget = |env: &Env, label: &str, model: &mut BTreeMap<String, LTree>| -> Result<(), (String, String)> {
        let repo = es("open", env.open())?;
        let ids: Vec<_> = es("snapshots", repo.get_all_snapshots())?.iter().filter(|s| s.label == label).map(|s| s.id).collect();
        es("forget", repo.delete_snapshots(&ids))?;
        _ = model.remove(label);
        Ok(())
    };
    forget(&env, "s0", &mut model)?;
    let prune = |env: &Env, o: PruneOptions| -> Result<(), (String, String)> {
        let repo = es("open", env.open())?;
        let plan = es("prune_plan", repo.prune_plan(&o))?;
        es("prune", repo.prune(&o, plan))
    };
    let unl = || PruneOptions::default().max_unused(LimitOption::Percentage(0)).max_repack(LimitOption::Unlimited).keep_delete(jiff::Span::new());
    prune(&env, unl().instant_delete(true))?;
    step("prune-repack-slow", &env, &model, rep)?;
    if let Some(c) = cfg.switch_to {
        // from here on new blobs are encoded the other way; the fast repack below then merges
        // compressed and uncompressed blobs (41 and 37 byte header entries) into the same packs
        let mut repo = es("open", env.open())?;
        _ = es("config", repo.apply_config(&rustic_core::ConfigOptions::default().set_compression(c)))?;
        rep.inc("compression_switched");
    }
    bk(&env, 2, &mut model)?;
    forget(&env, "s1", &mut model)?;
    prune(&env, unl().fast_repack(true).repack_all(true).instant_delete(true))?;
    step("prune-repack-fast", &env, &model, rep)?;
    if cfg.version == 2 && cfg.compression != Some(0) && cfg.switch_to.is_none() {
        prune(&env, unl().repack_uncompressed(true).instant_delete(true))?;
        step("prune-repack-uncompressed", &env, &model, rep)?;
    }
    bk(&env, 3, &mut model)?;
    // merge writer (tree packs)
    {
        let repo = es("open", env.open_full())?;
        let snaps = es("snapshots", repo.get_all_snapshots())?;
        let snap = es("snapshot", SnapshotOptions::default().label(Some("m".to_string())).host(Some("h".to_string())).to_snapshot())?;
        _ = es("merge", repo.merge_snapshots(&snaps, &last_modified_node, snap))?;
        // content of the merge is C12's subject; here only the packs it wrote matter
        let got = read_all(&env).map_err(|e| ("C08/merge/read".to_string(), e))?;
        _ = model.insert("m".into(), got["m"].clone());
    }
    step("merge", &env, &model, rep)?;
    // rewrite writer
    {
        let repo = es("open", env.open_full())?;
        let snaps: Vec<_> = es("snapshots", repo.get_all_snapshots())?.into_iter().filter(|s| s.label == "s3").collect();
        let mut topts = RewriteTreesOptions::default();
        topts.excludes.globs = vec!["!/r/d1/b".to_string()];
        _ = es("rewrite", repo.rewrite_snapshots_and_trees(snaps, &RewriteOptions::default().forget(true), &topts))?;
        let mut t = source(3);
        _ = t.remove("d1/b");
        _ = model.insert("s3".into(), model_tree("r", &t));
    }
    step("rewrite", &env, &model, rep)?;
    subsets(raw, &env, &model, rep, 4)?;
    // copy writer into a repository with the other configuration and another key
    {
        let dst = Env::single().with_key(vkit::rep::other_master_key());
        _ = es("init", dst.init_with(other.config("2")))?;
        let src = es("open", env.open_full())?;
        let snaps = es("snapshots", src.get_all_snapshots())?;
        let d = es("open", dst.open_ids())?;
        es("copy", src.copy(&d, snaps.iter()))?;
        rep.inc("history_steps");
        verify_packs(&dst.raw, &dst.store(), rep).map_err(|(s, m)| (s, format!("after copy: {m}")))?;
        compare(&dst, &model, "copy")?;
        subsets(&dst.raw, &dst, &model, rep, 3)?;
    }
    // repair-snapshots writer: lose one data pack, repair index, repair snapshots
    {
        let mut st = env.store();
        let victim = st.list(FileType::Pack).into_iter().map(|(id, _)| id).find(|id| {
            pack_header(raw, st.get(FileType::Pack, id).unwrap()).is_ok_and(|h| h.iter().all(|b| b.tpe == 0))
        });
        if let Some(v) = victim {
            _ = st.del(FileType::Pack, &v);
            let e2 = Env::from_store(st);
            es("repair-index", es("open", e2.open())?.repair_index(&RepairIndexOptions::default(), false))?;
            let repo = es("open", e2.open_full())?;
            let snaps = es("snapshots", repo.get_all_snapshots())?;
            es("repair-snapshots", repo.repair_snapshots(&RepairSnapshotsOptions::default(), snaps, false))?;
            rep.inc("history_steps");
            verify_packs(raw, &e2.store(), rep).map_err(|(s, m)| (s, format!("after repair-snapshots: {m}")))?;
        }
    }
    Ok(())
}

fn grid(quick: bool) -> Vec<Cfg> {
    let mut v = Vec::new();
    for (version, compression) in [(2u32, None), (2, Some(0)), (1, None), (2, Some(19))] {
        for (dp, tp) in [(10u32, 10u32), (300, 300), (4 << 20, 4 << 20)] {
            for tiny in [true, false] {
                if quick && !tiny && (dp != 300 || compression == Some(19)) {
                    continue;
                }
                v.push(Cfg { version, compression, data_pack: dp, tree_pack: tp, tiny_chunks: tiny, switch_to: None });
            }
        }
    }
    // repositories whose compression setting changes in mid-history (packs mixing both encodings)
    for (compression, switch_to) in [(Some(0), 3), (None, 0)] {
        for (dp, tp) in [(300u32, 300u32), (4 << 20, 4 << 20)] {
            v.push(Cfg { version: 2, compression, data_pack: dp, tree_pack: tp, tiny_chunks: true, switch_to: Some(switch_to) });
        }
    }
    v
}

pub fn run(args: &Args, rep: &mut Report) {
    let raw = RawKey::from_master(&master_key());
    rep.set_meta("rule", json!("configuration grid {v1, v2 default compression, v2 uncompressed, v2 level 19} x pack sizes {one blob, 300 B, 4 MiB} x chunker {tiny rabin, default}, plus v2 repositories whose compression is switched (off->3, default->off) between two backups so that a fast repack merges both encodings into one pack; per configuration one history exercising every pack writer (backup, prune repack re-encoding / fast / repack-uncompressed, merge, rewrite, copy into a repository with another key and configuration, repair snapshots); after every step every pack in the store is decoded independently; at three points every subset of the index files (incl. none, with read-all) is removed before repair-index, run with and without read-all. evaluations = packs verified + index subsets; non-trivial = distinct (configuration, step) pairs with >= 2 packs"));
    if let Some(p) = &args.replay {
        let v: Value = serde_json::from_str(&std::fs::read_to_string(p).unwrap()).unwrap();
        let cfg = Cfg::from_json(&v["case"]["config"]);
        let other = Cfg::from_json(&v["case"]["copy_target_config"]);
        rep.inc("cases");
        if let Err((sig, msg)) = run_history(&raw, &cfg, &other, rep) {
            rep.violation(sig, msg, v["case"].clone());
        }
        return;
    }
    let g = grid(args.quick());
    rep.set_meta("bounds", json!(format!("{} configurations", g.len())));
    for (i, cfg) in g.iter().enumerate() {
        if !args.mine(i) {
            continue;
        }
        if rep.over_budget() {
            return;
        }
        // copy target: the "opposite" configuration
        let other = g[(i + g.len() / 2 + 1) % g.len()].clone();
        let before = rep.get("packs_verified") + rep.get("index_subsets_removed");
        let r = run_history(&raw, cfg, &other, rep);
        let n = rep.get("packs_verified") + rep.get("index_subsets_removed") - before;
        rep.count("cases", n);
        for s in 0..rep.get("history_steps") {
            _ = rep.distinct("nontrivial", &(i, s));
        }
        rep.sample(json!({"config": cfg.json(), "copy_target_config": other.json()}));
        if let Err((sig, msg)) = r {
            rep.violation(sig, msg, json!({"config": cfg.json(), "copy_target_config": other.json()}));
        }
    }
}
