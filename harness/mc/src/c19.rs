//! C19 — the local cache is transparent.
//! SEQ with the cache directory as part of the state: every operation is run through a cached
//! handle and, on a clone of the same repository, through an uncached handle; results and
//! resulting repository must agree. Cache faults: stale, truncated, foreign and junk entries.

use std::{collections::BTreeMap, fs, path::PathBuf};

use rustic_core::{CheckOptions, FileType, LimitOption, PruneOptions};
use serde::{Deserialize, Serialize};
use serde_json::json;
use vkit::{
    backend::Store,
    decode::{RawKey, canon_store, hex_id},
    fsx::{FsTree, content_view, restore_tree, sandbox, snapshot},
    rep::{Env, REPO_ID, backup_with, bopts, master_key, read_all, repo_opts, tiny_config},
    report::{Args, Report, h64},
    seq::{SeqModel, Viol, bfs},
    source::MemSource,
};

use crate::c02::{T0, source};

#[derive(Clone, Debug, Serialize, Deserialize, PartialEq, Eq)]
pub enum Op {
    Backup,
    GetAllSnapshots,
    GetSnapshotById(usize),
    Forget,
    Prune,
    /// prune with fast repacking and instant deletion (packs are copied without re-encoding)
    PruneFast,
    Check { trust_cache: bool },
    ReadAll,
}

#[derive(Clone, Debug, Serialize, Deserialize, PartialEq, Eq)]
pub enum Act {
    /// the operation through a cached handle (differentially compared with an uncached twin)
    Cached(Op),
    /// the operation through an uncached handle ("another process"): the cache is not told
    Uncached(Op),
    TruncateCached,
    /// 16 bytes are appended to a cached file (its size exceeds the repository's)
    ExtendCached,
    /// a cached tree pack is replaced by a foreign file of another size (other bytes, 16 more)
    ForeignLongerCachedPack,
    /// foreign files (other bytes, 13 more) under the names of all *data* packs of the repository
    /// appear in the cache directory, where the library itself never puts data packs
    PlantForeignDataPacks,
    ForeignCached,
    /// a cached snapshot or index entry cannot be read at all (a directory sits under its name)
    UnreadableCached,
    PlantJunk,
}

#[derive(Clone)]
pub struct St {
    store: Store,
    cache: FsTree,
    n: usize,
    /// ids of snapshots ever created (hex), to address them by full id even after removal
    snap_ids: Vec<String>,
    /// a cached file was replaced by other bytes of the same size (undetectable by size)
    tainted: bool,
    /// a cached tree pack was replaced by a longer foreign file and no check has cleaned it up yet
    tainted_pack: bool,
    planted_data: bool,
}

pub struct C19 {
    raw: RawKey,
    dir: PathBuf,
}

fn env_with(store: &Store, cache_dir: Option<&PathBuf>) -> Env {
    let mut env = Env::from_store(store.clone());
    env.opts = match cache_dir {
        Some(d) => repo_opts().no_cache(false).cache_dir(d.clone()),
        None => repo_opts(),
    };
    env
}

/// run `op`; returns a canonical result string
fn run_op(env: &Env, op: &Op, n: usize, snap_ids: &[String]) -> String {
    let es = |e: Box<rustic_core::RusticError>| format!("Err({})", e.display_log().lines().next().unwrap_or("").chars().take(60).collect::<String>());
    match op {
        Op::Backup => match env.open_ids().and_then(|r| backup_with(&r, &MemSource::new("r", source(n)), &format!("s{n}"), T0 + 1000 + n as i64, &bopts())) {
            Ok(s) => format!("Ok(tree {} data_blobs {:?})", s.tree.to_hex().as_str(), s.summary.map(|x| (x.data_blobs, x.tree_blobs, x.files_new, x.files_unmodified))),
            Err(e) => es(e),
        },
        Op::GetAllSnapshots => match env.open().and_then(|r| r.get_all_snapshots()) {
            Ok(v) => {
                let mut l: Vec<String> = v.iter().map(|s| format!("{}:{}", s.label, s.tree.to_hex().as_str())).collect();
                l.sort();
                format!("Ok({l:?})")
            }
            Err(e) => es(e),
        },
        Op::GetSnapshotById(i) => {
            let Some(id) = snap_ids.get(*i) else { return "n/a".into() };
            match env.open().and_then(|r| r.get_snapshots(&[id.as_str()])) {
                Ok(v) => format!("Ok({:?})", v.iter().map(|s| format!("{}:{}", s.label, s.tree.to_hex().as_str())).collect::<Vec<_>>()),
                Err(_) => "Err".into(),
            }
        }
        Op::Forget => {
            let r = env.open().and_then(|r| {
                let snaps = r.get_all_snapshots()?;
                let mut ids: Vec<_> = snaps.iter().map(|s| (s.label.clone(), s.id)).collect();
                ids.sort();
                let ids: Vec<_> = ids.into_iter().take(1).map(|(_, i)| i).collect();
                r.delete_snapshots(&ids)
            });
            match r {
                Ok(()) => "Ok".into(),
                Err(e) => es(e),
            }
        }
        Op::Prune | Op::PruneFast => {
            let mut o = PruneOptions::default().max_unused(LimitOption::Percentage(0)).max_repack(LimitOption::Unlimited).keep_delete(jiff::Span::new());
            if matches!(op, Op::PruneFast) {
                o = o.fast_repack(true).instant_delete(true);
            }
            match env.open().and_then(|r| {
                r.prune_plan(&o).and_then(|p| {
                    if std::env::var("VERIF_DEBUG").is_ok() {
                        _ = std::fs::write("/tmp/own/c19debug.txt", format!("repack {} packs; {:?}", p.repack_packs().len(), p.stats.debug.0.iter().map(|(k, v)| (format!("{:?}/{:?}", k.todo, k.blob_type), v.packs)).collect::<Vec<_>>()));
                    }
                    r.prune(&o, p)
                })
            }) {
                Ok(()) => "Ok".into(),
                Err(e) => es(e),
            }
        }
        Op::Check { trust_cache } => match env.open().and_then(|r| r.check(CheckOptions::default().trust_cache(*trust_cache).read_data(false))) {
            Ok(res) => {
                let errs = vkit::rep::check_result_errors(&res);
                // cache-related findings are reported separately from repository findings
                let repo_errs: Vec<String> = errs.iter().filter(|e| !e.contains("Cache")).map(|e| e.chars().take_while(|c| c.is_alphanumeric()).collect()).collect();
                let cache_errs = errs.iter().filter(|e| e.contains("Cache")).count();
                format!("Ok(repo_errors {repo_errs:?}){}", if cache_errs > 0 { " +cache-mismatch-reported" } else { "" })
            }
            Err(e) => es(e),
        },
        Op::ReadAll => match read_all(env) {
            Ok(m) => format!("Ok({})", h64(&format!("{m:?}"))),
            Err(e) => format!("Err({})", e.chars().take(40).collect::<String>()),
        },
    }
}

impl C19 {
    fn cache_root(&self) -> PathBuf {
        self.dir.join("cache")
    }
    /// cached files (relative path below the repo's cache dir) of a type
    fn cached_files(&self, cache: &FsTree, tdir: &str) -> Vec<Vec<u8>> {
        let prefix = format!("{REPO_ID}/{tdir}/");
        cache.iter().filter(|(p, n)| n.kind == "file" && p.starts_with(prefix.as_bytes())).map(|(p, _)| p.clone()).collect()
    }
}

impl SeqModel for C19 {
    type State = St;
    type Action = Act;

    fn initial(&self) -> Vec<(String, St)> {
        let env = Env::single();
        let mut cfg = tiny_config(2);
        cfg.datapack_size = Some(600);
        cfg.datapack_growfactor = Some(0);
        cfg.treepack_size = Some(500);
        cfg.treepack_growfactor = Some(0);
        _ = env.init_with(cfg).expect("init");
        let empty = St { store: env.store(), cache: FsTree::new(), n: 0, snap_ids: vec![], tainted: false, tainted_pack: false, planted_data: false };
        // a repository with two snapshots whose cache was filled by a cached handle
        let mut s = empty.clone();
        for a in [Act::Cached(Op::Backup), Act::Cached(Op::Backup), Act::Cached(Op::ReadAll)] {
            s = self.step(&s, &a, &mut Report::default()).expect("initial");
        }
        vec![("empty".into(), empty), ("two-snapshots-cached".into(), s)]
    }

    fn actions(&self, s: &St) -> Vec<Act> {
        let mut ops = vec![Op::GetAllSnapshots, Op::ReadAll, Op::Check { trust_cache: true }, Op::Check { trust_cache: false }];
        if s.n < 4 {
            ops.insert(0, Op::Backup);
        }
        if !s.snap_ids.is_empty() {
            ops.push(Op::Forget);
            ops.push(Op::Prune);
            ops.push(Op::PruneFast);
            for i in 0..s.snap_ids.len().min(3) {
                ops.push(Op::GetSnapshotById(i));
            }
        }
        let mut v: Vec<Act> = ops.iter().cloned().map(Act::Cached).collect();
        for o in ops {
            if matches!(o, Op::Backup | Op::Forget | Op::Prune | Op::PruneFast) {
                v.push(Act::Uncached(o));
            }
        }
        if !self.cached_files(&s.cache, "snapshots").is_empty() || !self.cached_files(&s.cache, "index").is_empty() {
            v.push(Act::TruncateCached);
            v.push(Act::ExtendCached);
            v.push(Act::ForeignCached);
            v.push(Act::UnreadableCached);
        }
        if !self.cached_files(&s.cache, "data").is_empty() {
            v.push(Act::ForeignLongerCachedPack);
        }
        if !s.planted_data && !s.store.list(FileType::Pack).is_empty() {
            v.push(Act::PlantForeignDataPacks);
        }
        v.push(Act::PlantJunk);
        v
    }

    fn action_class(&self, a: &Act) -> String {
        match a {
            Act::Cached(o) => format!("cached:{}", format!("{o:?}").split([' ', '(', '{']).next().unwrap()),
            Act::Uncached(o) => format!("uncached:{}", format!("{o:?}").split([' ', '(', '{']).next().unwrap()),
            other => format!("{other:?}"),
        }
    }

    fn canon(&self, s: &St) -> String {
        // cache content by (type dir, canonical description of the cached file or junk marker)
        let mut c: Vec<String> = Vec::new();
        for (p, n) in &s.cache {
            if n.kind != "file" {
                continue;
            }
            let ps = String::from_utf8_lossy(p).to_string();
            let parts: Vec<&str> = ps.split('/').collect();
            let tdir = parts.get(1).copied().unwrap_or("?");
            let desc = match (tdir, n.data.as_ref()) {
                ("snapshots", Some(d)) => vkit::decode::describe(&self.raw, FileType::Snapshot, d).short(),
                ("index", Some(d)) => vkit::decode::describe(&self.raw, FileType::Index, d).short(),
                ("data", Some(d)) => vkit::decode::describe(&self.raw, FileType::Pack, d).short(),
                _ => format!("junk:{}", parts.last().unwrap_or(&"")),
            };
            // is the name consistent with the store?
            let in_store = parts.last().and_then(|n| n.parse::<rustic_core::Id>().ok()).is_some_and(|id| s.store.files.iter().any(|(_, i, _)| *i == id));
            c.push(format!("{tdir}:{desc}:{}", if in_store { "live" } else { "stale" }));
        }
        c.sort();
        format!("{}\n--cache--\n{}\nn={}", canon_store(&self.raw, &s.store).join("\n"), c.join("\n"), s.n) + if s.tainted { " tainted" } else { "" } + if s.tainted_pack { " tainted-pack" } else { "" } + if s.planted_data { " planted-data" } else { "" }
    }

    fn invariant(&self, _s: &St, _rep: &mut Report) -> Result<(), Viol> {
        Ok(())
    }

    fn step(&self, s: &St, a: &Act, rep: &mut Report) -> Result<St, Viol> {
        let mut n = s.clone();
        let croot = self.cache_root();
        restore_tree(&croot, &s.cache);
        match a {
            Act::Cached(op) | Act::Uncached(op) => {
                let cached = matches!(a, Act::Cached(_));
                let env = env_with(&s.store, cached.then_some(&croot));
                let res = run_op(&env, op, s.n, &s.snap_ids);
                let after = env.store();
                if cached {
                    // the uncached twin on a clone of the same repository
                    let twin = env_with(&s.store, None);
                    let res_t = run_op(&twin, op, s.n, &s.snap_ids);
                    let cls = self.action_class(a);
                    // a cached check may additionally report cache mismatches
                    let strip = |r: &str| r.replace(" +cache-mismatch-reported", "");
                    if strip(&res) != strip(&res_t) {
                        let sig = if s.tainted {
                            "C19/result-differs/foreign-same-size-cache-entry".to_string()
                        } else if s.tainted_pack && !matches!(op, Op::Check { .. }) {
                            // (check itself removes wrong-size pack entries before it reads trees)
                            "C19/result-differs/foreign-longer-cached-pack".to_string()
                        } else {
                            format!("C19/result-differs/{cls}")
                        };
                        return Err((sig, format!("cached: {res} / uncached: {res_t}")));
                    }
                    if canon_store(&self.raw, &after) != canon_store(&self.raw, &twin.store()) {
                        return Err((format!("C19/repository-differs/{cls}"), "the repository contents differ from those of the uncached twin".into()));
                    }
                    // the canonical form describes packs by their headers: what a command wrote must
                    // also *open* - every snapshot of the resulting repository is decoded independently
                    // wherever the uncached twin's is readable
                    if matches!(op, Op::Backup | Op::Prune | Op::PruneFast) && res.starts_with("Ok") {
                        let twin_ok = vkit::decode::independent_read(&self.raw, &twin.store()).is_ok();
                        if twin_ok {
                            if let Err(e) = vkit::decode::independent_read(&self.raw, &after) {
                                return Err((format!("C19/repository-corrupted/{cls}"), format!("after the cached operation the repository does not decode although the uncached twin's does: {e}")));
                            }
                        }
                    }
                    rep.inc("differential_comparisons");
                    if res.contains("+cache-mismatch-reported") {
                        rep.inc("cache_mismatch_reported_by_check");
                    }
                    // after an operation that lists a type the cache holds no file of that type which the repository lacks
                    let new_cache = snapshot(&croot);
                    let listed: &[(&str, FileType)] = match op {
                        Op::GetAllSnapshots | Op::Forget => &[("snapshots", FileType::Snapshot)],
                        Op::ReadAll | Op::Backup => &[("index", FileType::Index)],
                        Op::Check { .. } | Op::Prune | Op::PruneFast => &[("snapshots", FileType::Snapshot), ("index", FileType::Index)],
                        Op::GetSnapshotById(_) => &[],
                    };
                    if res.starts_with("Ok") {
                        for (tdir, ft) in listed {
                            for p in self.cached_files(&new_cache, tdir) {
                                let name = String::from_utf8_lossy(p.rsplit(|b| *b == b'/').next().unwrap()).to_string();
                                let Ok(id) = name.parse::<rustic_core::Id>() else { continue };
                                if name.len() != 64 || name.chars().any(|c| c.is_ascii_uppercase()) {
                                    continue;
                                }
                                let size = new_cache[&p].data.as_ref().map_or(0, Vec::len);
                                match after.get(*ft, &id) {
                                    None => return Err((format!("C19/stale-entry-after-listing/{tdir}"), format!("after {cls} the cache still holds {tdir}/{} which the repository does not have", &name[..8]))),
                                    Some(d) if d.len() != size => return Err((format!("C19/wrong-size-entry-after-listing/{tdir}"), format!("after {cls} the cache holds {tdir}/{} with {size} bytes, the repository has {}", &name[..8], d.len()))),
                                    _ => {}
                                }
                            }
                        }
                    }
                    n.cache = new_cache;
                }
                if cached && matches!(op, Op::Check { .. }) {
                    n.tainted_pack = false;
                }
                // bookkeeping from the (real) result
                if matches!(op, Op::Backup) && res.starts_with("Ok") {
                    n.n += 1;
                    for (id, _) in after.list(FileType::Snapshot) {
                        let h = hex_id(&id);
                        if !n.snap_ids.contains(&h) {
                            n.snap_ids.push(h);
                        }
                    }
                }
                n.store = after;
            }
            Act::TruncateCached | Act::ExtendCached | Act::ForeignCached => {
                let mut files = self.cached_files(&s.cache, "snapshots");
                files.extend(self.cached_files(&s.cache, "index"));
                files.sort();
                if let Some(p) = files.first() {
                    let e = n.cache.get_mut(p).unwrap();
                    let d = e.data.clone().unwrap_or_default();
                    if matches!(a, Act::ForeignCached) {
                        n.tainted = true;
                    }
                    e.data = Some(if matches!(a, Act::TruncateCached) {
                        d[..d.len() / 2].to_vec()
                    } else if matches!(a, Act::ExtendCached) {
                        [&d[..], b"SIXTEEN MORE BYTE"].concat()
                    } else {
                        // a file of the same name and size from "another repository": different bytes
                        d.iter().map(|b| b ^ 0x5a).collect()
                    });
                }
            }
            Act::UnreadableCached => {
                // the newest snapshot entry if there is one (read by id and by listing), else an index entry
                let mut files = self.cached_files(&s.cache, "snapshots");
                if files.is_empty() {
                    files = self.cached_files(&s.cache, "index");
                }
                files.sort();
                if let Some(p) = files.last() {
                    let e = n.cache.get_mut(p).unwrap();
                    e.kind = "dir".into();
                    e.data = None;
                    e.mode = 0o755;
                }
            }
            Act::ForeignLongerCachedPack => {
                let mut files = self.cached_files(&s.cache, "data");
                files.sort();
                if let Some(p) = files.first() {
                    let e = n.cache.get_mut(p).unwrap();
                    let d = e.data.clone().unwrap_or_default();
                    e.data = Some(d.iter().map(|b| b ^ 0x5a).chain(*b"SIXTEEN MORE BYT").collect());
                    n.tainted_pack = true;
                }
            }
            Act::PlantForeignDataPacks => {
                let mk = |data: Vec<u8>| vkit::fsx::FsNode { kind: "file".into(), data: Some(data), target: None, mode: 0o644, mtime: 0, ino: 0, nlink: 1 };
                for (id, _) in s.store.list(FileType::Pack) {
                    let data = s.store.get(FileType::Pack, &id).unwrap();
                    if vkit::decode::pack_header(&self.raw, data).is_ok_and(|h| h.iter().all(|b| b.tpe == 0)) {
                        let hex = hex_id(&id);
                        let foreign: Vec<u8> = data.iter().map(|b| b ^ 0x5a).chain(*b"THIRTEEN MORE").collect();
                        _ = n.cache.insert(format!("{REPO_ID}/data/{}/{hex}", &hex[..2]).into_bytes(), mk(foreign));
                    }
                }
                n.planted_data = true;
            }
            Act::PlantJunk => {
                let mk = |data: &[u8]| vkit::fsx::FsNode { kind: "file".into(), data: Some(data.to_vec()), target: None, mode: 0o644, mtime: 0, ino: 0, nlink: 1 };
                for tdir in ["snapshots", "index"] {
                    _ = n.cache.insert(format!("{REPO_ID}/{tdir}/xy/xyz").into_bytes(), mk(b"junk"));
                    _ = n.cache.insert(format!("{REPO_ID}/{tdir}/AB/{}", "AB".repeat(32)).into_bytes(), mk(b"upper case"));
                    _ = n.cache.insert(format!("{REPO_ID}/{tdir}/ab/{}-tmp-", "ab".repeat(32)).into_bytes(), mk(b"tmp"));
                    _ = n.cache.insert(format!("{REPO_ID}/{tdir}/cd/{}", "cd".repeat(32)).into_bytes(), mk(b"valid name, not in the repository"));
                }
            }
        }
        _ = content_view(&n.cache);
        Ok(n)
    }
}

pub fn run(args: &Args, rep: &mut Report) {
    let raw = RawKey::from_master(&master_key());
    let dir = sandbox(&format!("c19-{}", args.shard));
    let quick = args.quick();
    let depth = if quick { 3 } else { 4 };
    rep.set_meta("bounds", json!(format!("BFS depth {depth} from two initial states (empty; two snapshots with a filled cache) over {{backup, get_all_snapshots, get_snapshots([full id]), forget, prune, check trust-cache/not, read all snapshots}} through a cached handle (each compared with an uncached twin on a clone of the repository) and {{backup, forget, prune}} through an uncached handle, plus cache faults: truncate a cached file, append 16 bytes to it, replace a cached tree pack by a longer foreign file, replace it by other bytes of the same size, plant junk (`xyz`, upper-case hex, `-tmp-`, a well-formed name the repository lacks)")));
    let m = C19 { raw, dir: dir.clone() };
    bfs(&m, depth, 100_000, args, rep);
    _ = fs::remove_dir_all(&dir);
    let _ = BTreeMap::<u8, u8>::new();
}
