//! C04 — stored data is authenticated ciphertext; tampering is always detected.
//! (a) nonce freshness and (b) absence of plaintext in every state of a SEQ run with the real RNG;
//! (c) TAMPER: every stored file x fault -> every typed read returns Err or the original content;
//! (d) credential histories.

use std::collections::{BTreeMap, BTreeSet, HashMap};

use rustic_core::{
    ConfigOptions, Credentials, FileType, Id, KeyOptions, LimitOption, PruneOptions, Repository,
    repofile::{BlobType, IndexFile, SnapshotFile},
};
use serde::{Deserialize, Serialize};
use serde_json::{Value, json};
use vkit::{
    backend::{Store, ft_name},
    decode::{RawKey, hex_id, index_packs, open_json, pack_header},
    logical::{LTree, diff, model_tree},
    rep::{Env, backup_with, bopts, master_key, other_master_key, repo_opts, tiny_config},
    report::{Args, Report},
    seq::{SeqModel, Viol, bfs},
    source::{Entry, MemSource},
    tamper::{Fault, apply, faults_for, par_map, region},
};

use crate::{c02::T0, c13::lcg};

// ------------------------------------------------------------------------------------------------
// (a) + (b): SEQ with invariants on raw stored bytes

const MARKERS: [&str; 9] = [
    "secretdirname", "secretfilename", "labelSECRET", "hostSECRET", "tagSECRET", "\"nodes\"", "\"tree\"", "\"packs\"", "\"blobs\"",
];

fn secret_source(v: usize) -> Entry {
    let mut t = Entry::dir(T0);
    t.insert("secretdirname/secretfilename_a", Entry::file(lcg(500, 400), T0 + 1));
    t.insert("secretdirname/secretfilename_b", Entry::file(lcg(600 + v as u64, 300), T0 + 2 + v as i64));
    t.insert("secretdirname/zeros", Entry::file(vec![0u8; 500], T0 + 3));
    t.insert("secretfilename_text", Entry::file(b"plain text content which must never be stored in clear 0123456789".repeat(4), T0 + 4));
    t
}

#[derive(Clone, Debug, Serialize, Deserialize, PartialEq, Eq)]
pub enum Act {
    Backup,
    PruneRepack { fast: bool },
    Forget,
    CopyOut,
    SetCompression(i32),
}

#[derive(Clone)]
pub struct St {
    store: Store,
    n: usize,
    /// a second repository (copy target, other key)
    copy: Option<Store>,
}

pub struct NonceModel {
    raw: RawKey,
    other: RawKey,
}

/// all sealed units of a store: (description, nonce, whole unit bytes)
fn units(raw: &RawKey, store: &Store) -> Vec<(String, [u8; 16], Vec<u8>)> {
    let mut out = Vec::new();
    for (t, id, d) in &store.files {
        match t {
            FileType::Key => {}
            FileType::Pack => {
                let n = d.len();
                if let Ok(h) = pack_header(raw, d) {
                    for b in &h {
                        let (o, l) = (b.offset as usize, b.length as usize);
                        out.push((format!("blob {} in pack {}", &b.id[..8], &hex_id(id)[..8]), d[o..o + 16].try_into().unwrap(), d[o..o + l].to_vec()));
                    }
                    let hl = u32::from_le_bytes(d[n - 4..].try_into().unwrap()) as usize;
                    out.push((format!("header of pack {}", &hex_id(id)[..8]), d[n - 4 - hl..n - 4 - hl + 16].try_into().unwrap(), d[n - 4 - hl..n - 4].to_vec()));
                }
            }
            _ => {
                if d.len() >= 32 {
                    out.push((format!("{} {}", ft_name(*t), &hex_id(id)[..8]), d[..16].try_into().unwrap(), d.to_vec()));
                }
            }
        }
    }
    out
}

fn raw_invariants(raw: &RawKey, store: &Store, contents: &[Vec<u8>], rep: &mut Report) -> Result<(), Viol> {
    // (a) nonces
    let mut seen: HashMap<[u8; 16], (String, Vec<u8>)> = HashMap::new();
    for (what, nonce, unit) in units(raw, store) {
        rep.inc("nonces_checked");
        if nonce == [0u8; 16] {
            return Err(("C04/nonce/zero".into(), format!("{what} uses an all-zero nonce")));
        }
        if let Some((other, u2)) = seen.get(&nonce) {
            if *u2 != unit {
                return Err(("C04/nonce/reused".into(), format!("{what} and {other} use the same nonce for different messages")));
            }
            rep.inc("verbatim_ciphertext_copies");
        } else {
            _ = seen.insert(nonce, (what, unit));
        }
    }
    // (b) no plaintext: names, labels, JSON keys, and no 8-byte window of file contents
    let mut windows: BTreeSet<&[u8]> = BTreeSet::new();
    for c in contents {
        for w in c.windows(8).step_by(3) {
            // all-zero windows occur in ciphertext by chance with negligible probability, but keep the test sharp
            _ = windows.insert(w);
        }
    }
    for (t, id, d) in &store.files {
        if *t == FileType::Key {
            continue;
        }
        for m in MARKERS {
            if d.windows(m.len()).any(|w| w == m.as_bytes()) {
                return Err(("C04/plaintext/marker".into(), format!("{} {} contains the plaintext {m:?}", ft_name(*t), &hex_id(id)[..8])));
            }
        }
        for w in d.windows(8) {
            rep.inc("plaintext_windows_checked");
            if windows.contains(w) {
                return Err(("C04/plaintext/content".into(), format!("{} {} contains 8 bytes of file content in clear", ft_name(*t), &hex_id(id)[..8])));
            }
        }
    }
    Ok(())
}

impl SeqModel for NonceModel {
    type State = St;
    type Action = Act;

    fn initial(&self) -> Vec<(String, St)> {
        let env = Env::single();
        let mut cfg = tiny_config(2);
        cfg.datapack_size = Some(500);
        cfg.datapack_growfactor = Some(0);
        cfg.treepack_size = Some(500);
        cfg.treepack_growfactor = Some(0);
        _ = env.init_with(cfg).expect("init");
        vec![("empty".into(), St { store: env.store(), n: 0, copy: None })]
    }

    fn actions(&self, s: &St) -> Vec<Act> {
        let mut v = vec![Act::Backup];
        if s.n > 0 {
            v.push(Act::PruneRepack { fast: true });
            v.push(Act::PruneRepack { fast: false });
            v.push(Act::Forget);
            v.push(Act::CopyOut);
        }
        v.push(Act::SetCompression(0));
        v.push(Act::SetCompression(7));
        v
    }

    fn action_class(&self, a: &Act) -> String {
        format!("{a:?}").split([' ', '(', '{']).next().unwrap().to_string()
    }

    fn canon(&self, s: &St) -> String {
        let mut c = vkit::decode::canon_store(&self.raw, &s.store);
        c.push(format!("n={} copy={}", s.n, s.copy.as_ref().map_or(0, Store::len)));
        c.join("\n")
    }

    fn invariant(&self, s: &St, rep: &mut Report) -> Result<(), Viol> {
        let contents: Vec<Vec<u8>> = {
            let mut all = Vec::new();
            secret_source(s.n.saturating_sub(1)).walk(b"", &mut all);
            all.into_iter().filter_map(|(_, e)| if let vkit::source::Ent::File(d) = e.ent { Some(d.to_vec()) } else { None }).collect()
        };
        raw_invariants(&self.raw, &s.store, &contents, rep)?;
        if let Some(c) = &s.copy {
            raw_invariants(&self.other, c, &contents, rep).map_err(|(s, m)| (format!("{s}[copy-target]"), m))?;
        }
        Ok(())
    }

    fn step(&self, s: &St, a: &Act, _rep: &mut Report) -> Result<St, Viol> {
        let env = Env::from_store(s.store.clone());
        let mut n = s.clone();
        let es = |what: &str, e: Box<rustic_core::RusticError>| (format!("C04/{what}/error"), e.display_log());
        match a {
            Act::Backup => {
                let repo = env.open_ids().map_err(|e| es("open", e))?;
                let snap = rustic_core::SnapshotOptions::default()
                    .label(Some("labelSECRET".to_string()))
                    .host(Some("hostSECRET".to_string()))
                    .add_tags("tagSECRET")
                    .and_then(|o| o.time(Some(jiff::Timestamp::from_second(T0 + 1000 + s.n as i64).unwrap().to_zoned(jiff::tz::TimeZone::UTC))).to_snapshot())
                    .map_err(|e| es("snapshot", e))?;
                let src = MemSource::new("r", secret_source(s.n));
                _ = repo.archive(&bopts(), &src, snap, &[std::path::PathBuf::from("r")]).map_err(|e| es("backup", e))?;
                n.n += 1;
            }
            Act::PruneRepack { fast } => {
                let repo = env.open().map_err(|e| es("open", e))?;
                let o = PruneOptions::default().repack_all(true).max_repack(LimitOption::Unlimited).fast_repack(*fast).instant_delete(true);
                let plan = repo.prune_plan(&o).map_err(|e| es("prune_plan", e))?;
                repo.prune(&o, plan).map_err(|e| es("prune", e))?;
            }
            Act::Forget => {
                let repo = env.open().map_err(|e| es("open", e))?;
                let ids: Vec<_> = repo.get_all_snapshots().map_err(|e| es("snapshots", e))?.iter().take(1).map(|s| s.id).collect();
                repo.delete_snapshots(&ids).map_err(|e| es("forget", e))?;
            }
            Act::CopyOut => {
                let dst = match &s.copy {
                    Some(c) => Env::from_store(c.clone()).with_key(other_master_key()),
                    None => {
                        let d = Env::single().with_key(other_master_key());
                        let mut cfg = tiny_config(2);
                        cfg.id = serde_json::from_value(json!("2".repeat(64))).unwrap();
                        _ = d.init_with(cfg).map_err(|e| es("init", e))?;
                        d
                    }
                };
                let src = env.open_full().map_err(|e| es("open", e))?;
                let snaps = src.get_all_snapshots().map_err(|e| es("snapshots", e))?;
                let d = dst.open_ids().map_err(|e| es("open", e))?;
                src.copy(&d, snaps.iter()).map_err(|e| es("copy", e))?;
                n.copy = Some(dst.store());
            }
            Act::SetCompression(c) => {
                let mut repo = env.open().map_err(|e| es("open", e))?;
                _ = repo.apply_config(&ConfigOptions::default().set_compression(*c)).map_err(|e| es("config", e))?;
            }
        }
        n.store = env.store();
        Ok(n)
    }
}

// ------------------------------------------------------------------------------------------------
// (c) tamper

struct Subject {
    name: &'static str,
    store: Store,
    model: BTreeMap<String, LTree>,
    /// original decoded JSON of every snapshot/index file by id
    json: HashMap<(u8, Id), Value>,
    /// original plaintext of every indexed blob (type, id)
    blobs: BTreeMap<(u8, String), Vec<u8>>,
    /// original index listings of every blob: (pack id, offset, length)
    locs: BTreeMap<(u8, String), BTreeSet<(String, u32, u32)>>,
}

fn subject(name: &'static str, one_blob: bool, raw: &RawKey) -> Subject {
    let env = Env::single();
    let mut cfg = tiny_config(2);
    cfg.datapack_size = Some(if one_blob { 10 } else { 500 });
    cfg.datapack_growfactor = Some(0);
    cfg.treepack_size = Some(if one_blob { 10 } else { 500 });
    cfg.treepack_growfactor = Some(0);
    _ = env.init_with(cfg).expect("init");
    let mut model = BTreeMap::new();
    for v in 0..2 {
        // equally sized files: one-blob packs then have identical layouts
        let mut t = Entry::dir(T0);
        t.insert("a/f1", Entry::file(lcg(10 + v, 100), T0 + 1 + v as i64));
        t.insert("a/f2", Entry::file(lcg(20 + v, 100), T0 + 2 + v as i64));
        t.insert("b/g", Entry::file(lcg(30, 250), T0 + 3));
        if v == 0 {
            // compressible single-chunk files of different lengths: several of them compress to the
            // same size, so that their one-blob packs share the layout but not the plain length
            for n in (30..64usize).step_by(3) {
                t.insert(&format!("c/rep{n}"), Entry::file(b"abcd".iter().cycle().take(n).copied().collect::<Vec<u8>>(), T0 + 4));
            }
        }
        let repo = env.open_ids().expect("open");
        _ = backup_with(&repo, &MemSource::new("r", t.clone()), &format!("s{v}"), T0 + 1000 + v as i64, &bopts()).expect("backup");
        _ = model.insert(format!("s{v}"), model_tree("r", &t));
    }
    let store = env.store();
    let mut json = HashMap::new();
    for (t, id, d) in &store.files {
        if matches!(t, FileType::Snapshot | FileType::Index) {
            _ = json.insert((vkit::backend::ft_ord(*t), *id), open_json(raw, d).expect("decode"));
        }
    }
    let mut blobs = BTreeMap::new();
    let mut locs: BTreeMap<(u8, String), BTreeSet<(String, u32, u32)>> = BTreeMap::new();
    for p in index_packs(raw, &store).expect("index") {
        let pack = store.get(FileType::Pack, &p.pack_id.parse().unwrap()).unwrap();
        for b in &p.blobs {
            _ = blobs.insert((b.tpe, b.id.clone()), vkit::decode::open_blob(raw, pack, b).expect("blob"));
            _ = locs.entry((b.tpe, b.id.clone())).or_default().insert((p.pack_id.clone(), b.offset, b.length));
        }
    }
    Subject { name, store, model, json, blobs, locs }
}

/// every typed read of the faulted store: Err or exactly the original content
fn observe(sub: &Subject, faulted: &Store) -> Result<(), (String, String)> {
    let env = Env::from_store(faulted.clone());
    // opening may fail (config / key material damaged): that is a detected error
    let Ok(repo) = env.open() else { return Ok(()) };
    // typed reads of the original snapshot and index ids
    for ((t, id), orig) in &sub.json {
        if *t == vkit::backend::ft_ord(FileType::Snapshot) {
            if let Ok(s) = repo.get_file::<SnapshotFile>(&(*id).into()) {
                let mut got = serde_json::to_value(&s).unwrap();
                let mut want = orig.clone();
                // the id field is not part of the stored content
                _ = got.as_object_mut().map(|o| o.remove("id"));
                _ = want.as_object_mut().map(|o| o.remove("id"));
                if serde_json::from_value::<SnapshotFile>(want.clone()).map(|w| serde_json::to_value(&w).unwrap()).map(|mut w| { _ = w.as_object_mut().map(|o| o.remove("id")); w }).ok() != Some(got) {
                    return Err(("snapshot".into(), format!("reading snapshot {} returned different content", &hex_id(id)[..8])));
                }
            }
        } else if let Ok(f) = repo.get_file::<IndexFile>(&(*id).into()) {
            let got = serde_json::to_value(&f).unwrap();
            let want = serde_json::from_value::<IndexFile>(orig.clone()).map(|w| serde_json::to_value(&w).unwrap()).ok();
            if want != Some(got) {
                return Err(("index".into(), format!("reading index {} returned different content", &hex_id(id)[..8])));
            }
        }
    }
    // the index as the library rebuilds it from the pack files where the listing disagrees with the
    // index files (`to_indexed_checked` reads the pack headers): every answer it gives is one of the
    // original listings
    if let Ok(chk) = env.open().and_then(rustic_core::Repository::to_indexed_checked) {
        for ((tpe, id), want) in &sub.locs {
            let bid: rustic_core::BlobId = id.parse().unwrap();
            let got = if *tpe == 1 {
                chk.get_index_entry(&rustic_core::TreeId::from(bid))
            } else {
                chk.get_index_entry(&rustic_core::DataId::from(bid))
            };
            if let Ok(e) = got {
                let loc = (e.pack.to_hex().to_string(), e.location.offset, e.location.length);
                // an answer other than the original listings is acceptable only if it is true: the
                // bytes at that place of that (possibly replaced) pack file open to this very blob
                let truthful = || -> bool {
                    let Some(pack) = e.pack.to_hex().parse().ok().and_then(|pid| faulted.get(FileType::Pack, &pid)) else { return false };
                    let b = vkit::decode::HBlob { tpe: *tpe, id: id.clone(), offset: loc.1, length: loc.2, uncompressed: e.location.uncompressed_length.map(std::num::NonZeroU32::get) };
                    vkit::decode::open_blob(&RawKey::from_master(&master_key()), pack, &b).is_ok()
                };
                if !want.contains(&loc) && !truthful() {
                    return Err(("pack-header".into(), format!("after to_indexed_checked blob {}:{} is located at {loc:?}, which does not hold it; stored listings are {want:?}", tpe, &id[..8])));
                }
            }
        }
    }
    // blobs through the index
    if let Ok(full) = env.open_full() {
        for ((tpe, id), plain) in &sub.blobs {
            let bt = if *tpe == 1 { BlobType::Tree } else { BlobType::Data };
            if let Ok(d) = full.cat_blob(bt, id) {
                if d[..] != plain[..] {
                    // (content of the same length is the recorded finding: the plaintext hash is never
                    // compared with the blob id; another length contradicts the index as well)
                    let what = if d.len() == plain.len() { "blob" } else { "blob-of-other-length" };
                    return Err((what.into(), format!("cat_blob({bt},{}) returned different content ({} bytes, the blob has {})", &id[..8], d.len(), plain.len())));
                }
            }
        }
        // whole snapshots: Err or the source
        if let Ok(snaps) = full.get_all_snapshots() {
            // a successful listing covers every stored snapshot file: one that cannot be read must
            // make the listing fail, not shrink it
            let stored = faulted.ids(FileType::Snapshot).len();
            if snaps.len() != stored {
                return Err(("listing".into(), format!("the store holds {stored} snapshot files but get_all_snapshots returned {} snapshots without an error", snaps.len())));
            }
            for s in &snaps {
                if let Ok(t) = vkit::logical::read_snapshot(&full, s) {
                    match sub.model.get(&s.label) {
                        Some(m) if diff(m, &t).is_none() => {}
                        _ => return Err(("restore".into(), format!("snapshot {} restores different content without an error", s.label))),
                    }
                }
            }
        }
    }
    Ok(())
}

// ------------------------------------------------------------------------------------------------
// (d) credentials

#[derive(Clone, Debug, Serialize, Deserialize, PartialEq, Eq)]
pub enum Cred {
    AddKey(u8),
    DeleteFirstKey,
    OpenPw(u8),
    OpenWrong,
    OpenMaster,
    OpenOtherMaster,
}

/// passwords which differ in leading / inner / trailing white space only
const CHANNEL_PASSWORDS: [&str; 7] = ["pw", "pw ", " pw", "pw\t", "p w", "pw  ", "pw \t"];

/// The password reaches the library directly, through a password file or through a password
/// command (each with the line endings none, LF, CRLF). Every channel must deliver exactly the
/// configured password: the repository initialised with password p (given directly) opens through
/// each channel configured with p, and is refused for each other password of the alphabet.
fn credential_channels(rep: &mut Report, args: &Args) {
    use rustic_core::CredentialOptions;
    let dir = vkit::fsx::sandbox(&format!("c04-cred-{}", args.shard));
    let mut idx = 0usize;
    for (pi, p) in CHANNEL_PASSWORDS.iter().enumerate() {
        idx += 1;
        if !args.mine(idx) {
            continue;
        }
        let env = Env::single();
        let init = Repository::new(&repo_opts(), &env.backends())
            .and_then(|r| r.init(&Credentials::password(*p), &KeyOptions::default(), &ConfigOptions::default()));
        if let Err(e) = init {
            rep.violation("C04/cred-channel/init".to_string(), e.display_log(), json!({"part": "credential-channels", "password": p}));
            continue;
        }
        for (qi, q) in CHANNEL_PASSWORDS.iter().enumerate() {
            for (ei, ending) in ["", "\n", "\r\n"].iter().enumerate() {
                for channel in ["file", "command"] {
                    // the full product for the own password; other passwords with LF only
                    if qi != pi && ei != 1 {
                        continue;
                    }
                    rep.inc("cases");
                    rep.inc("credential_channel_cases");
                    let file = dir.join(format!("pw-{pi}-{qi}-{ei}"));
                    std::fs::write(&file, format!("{q}{ending}")).expect("sandbox");
                    let mut o = CredentialOptions::default();
                    if channel == "file" {
                        o.password_file = Some(file.clone());
                    } else {
                        o.password_command = Some(vec!["cat".to_string(), file.to_string_lossy().to_string()].into());
                    }
                    let case = json!({"part": "credential-channels", "initialised_with": p, "configured": q, "line_ending": ending, "channel": channel});
                    let creds = match o.credentials() {
                        Ok(Some(c)) => c,
                        Ok(None) => {
                            rep.violation(format!("C04/cred-channel/{channel}/no-credentials"), "no credentials derived from the options".to_string(), case);
                            continue;
                        }
                        Err(e) => {
                            rep.violation(format!("C04/cred-channel/{channel}/error"), e.display_log(), case);
                            continue;
                        }
                    };
                    let opened = Repository::new(&repo_opts(), &env.backends()).and_then(|r| r.open(&creds)).is_ok();
                    if opened != (p == q) {
                        let sig = if p == q { format!("C04/cred-channel/{channel}/right-password-refused") } else { format!("C04/cred-channel/{channel}/wrong-password-accepted") };
                        if !rep.has_violation(&sig) {
                            rep.violation(sig, format!("repository initialised with password {p:?}; password {q:?} + line ending {ending:?} through the password {channel}: opened = {opened}"), case);
                        }
                    } else if p != q {
                        rep.inc("credential_channel_refusals");
                    }
                }
            }
        }
    }
    _ = std::fs::remove_dir_all(&dir);
}

fn run_credentials(hist: &[Cred], rep: &mut Report) -> Result<(), (String, String)> {
    let pw = |i: u8| format!("password-{i}");
    // a password-initialised repository (key 1 = password-1)
    let env = Env::single();
    let repo = Repository::new(&repo_opts(), &env.backends())
        .and_then(|r| r.init(&Credentials::password(pw(1)), &KeyOptions::default(), &ConfigOptions::default()))
        .map_err(|e| ("C04/cred/init".to_string(), e.display_log()))?;
    let mk = repo.key();
    drop(repo);
    // model: passwords with a key file present, in insertion order
    let mut present: Vec<u8> = vec![1];
    for (i, c) in hist.iter().enumerate() {
        rep.inc("credential_steps");
        let open = |cr: &Credentials| Repository::new(&repo_opts(), &env.backends()).and_then(|r| r.open(cr));
        match c {
            Cred::AddKey(k) => {
                let r = open(&Credentials::Masterkey(mk.clone())).map_err(|e| ("C04/cred/open-master".to_string(), e.display_log()))?;
                _ = r.add_key(&pw(*k), &KeyOptions::default()).map_err(|e| ("C04/cred/add-key".to_string(), e.display_log()))?;
                present.push(*k);
            }
            Cred::DeleteFirstKey => {
                if present.is_empty() {
                    continue;
                }
                let r = open(&Credentials::Masterkey(mk.clone())).map_err(|e| ("C04/cred/open-master".to_string(), e.display_log()))?;
                // key files in store order = insertion order
                let first = env.store().ids(FileType::Key)[0];
                r.delete_key(&first.into()).map_err(|e| ("C04/cred/delete-key".to_string(), e.display_log()))?;
                _ = present.remove(0);
            }
            Cred::OpenPw(k) => {
                let ok = open(&Credentials::password(pw(*k))).is_ok();
                if ok != present.contains(k) {
                    return Err(("C04/cred/password".into(), format!("step {i}: open with password-{k} succeeded: {ok}, key present: {}", present.contains(k))));
                }
            }
            Cred::OpenWrong => {
                if open(&Credentials::password("not-a-password")).is_ok() {
                    return Err(("C04/cred/wrong-password-opens".into(), format!("step {i}")));
                }
            }
            Cred::OpenMaster => {
                if let Err(e) = open(&Credentials::Masterkey(mk.clone())) {
                    return Err(("C04/cred/master-key-refused".into(), format!("step {i}: {}", e.display_log())));
                }
            }
            Cred::OpenOtherMaster => {
                if open(&Credentials::Masterkey(other_master_key())).is_ok() {
                    return Err(("C04/cred/other-master-key-opens".into(), format!("step {i}")));
                }
            }
        }
    }
    Ok(())
}

pub fn run(args: &Args, rep: &mut Report) {
    let raw = RawKey::from_master(&master_key());
    let other = RawKey::from_master(&other_master_key());
    let quick = args.quick();
    std::panic::set_hook(Box::new(|_| {}));
    rep.set_meta("rule", json!("(c) two repositories (multi-blob packs; one-blob packs with equally sized blobs) x every stored file incl. config and key x {remove, truncate, flip, append, replace by each sibling, same plaintext under another key, index entry edits}: every typed read (snapshot and index files by id, every blob through the index, whole snapshots) must fail or return the original content. (a)+(b) nonces of all sealed units pairwise distinct and plaintext markers / content windows absent in every state of a BFS over {backup, prune repack fast/slow, forget, copy to a repository with another key, compression change}. (d) all credential histories up to the bound. Non-trivial = distinct faults after which at least one read failed"));
    if let Some(p) = &args.replay {
        let v: Value = serde_json::from_str(&std::fs::read_to_string(p).unwrap()).unwrap();
        let c = &v["case"];
        rep.inc("cases");
        match c["part"].as_str() {
            Some("tamper") => {
                let subs = [subject("multi-blob-packs", false, &raw), subject("one-blob-packs", true, &raw)];
                let sub = subs.iter().find(|s| Some(s.name) == c["subject"].as_str()).expect("subject");
                let fi = c["file_index"].as_u64().unwrap() as usize;
                let fault: Fault = serde_json::from_value(c["fault"].clone()).unwrap();
                let (t, id, _) = sub.store.files[fi].clone();
                if let Some(f) = apply(&raw, &other, &sub.store, t, &id, &fault) {
                    if let Err((what, msg)) = observe(sub, &f) {
                        rep.violation(format!("C04/undetected/{}/{}/{what}", fault.class(), ft_name(t)), msg, c.clone());
                    }
                }
            }
            Some("credential-channels") => {
                // the whole (small) channel product is re-run
                let mut a2 = args.clone();
                a2.replay = None;
                a2.shard = 0;
                a2.nshards = 1;
                credential_channels(rep, &a2);
            }
            Some("credentials") => {
                let h: Vec<Cred> = serde_json::from_value(c["history"].clone()).unwrap();
                if let Err((sig, msg)) = run_credentials(&h, rep) {
                    rep.violation(sig, msg, c.clone());
                }
            }
            _ => vkit::seq::replay(&NonceModel { raw, other }, c, rep),
        }
        return;
    }
    // ---- (a)+(b)
    let depth = if quick { 3 } else { 5 };
    let before = rep.violations.len();
    bfs(&NonceModel { raw: raw.clone(), other: other.clone() }, depth, 50_000, args, rep);
    for v in rep.violations.iter_mut().skip(before) {
        v.case["part"] = json!("nonce-plaintext");
    }
    rep.count("cases", rep.get("executions"));
    // ---- (c)
    let subs = [subject("multi-blob-packs", false, &raw), subject("one-blob-packs", true, &raw)];
    let mut cases = Vec::new();
    for (si, s) in subs.iter().enumerate() {
        for (fi, (t, id, _)) in s.store.files.iter().enumerate() {
            for f in faults_for(&raw, &s.store, *t, id, !quick, 2048) {
                cases.push((si, fi, f));
            }
        }
    }
    let cases: Vec<_> = cases.into_iter().enumerate().filter(|(i, _)| args.mine(*i)).map(|(_, c)| c).collect();
    rep.set_meta("bounds", json!(format!("nonce/plaintext BFS depth {depth}; {} tamper faults in this run's shards; credential histories of length <= {}", cases.len(), if quick { 2 } else { 3 })));
    let res = par_map(cases.len(), 8, |i| {
        let (si, fi, f) = &cases[i];
        let (t, id, _) = subs[*si].store.files[*fi].clone();
        let r = std::panic::catch_unwind(std::panic::AssertUnwindSafe(|| apply(&raw, &other, &subs[*si].store, t, &id, f).map(|st| observe(&subs[*si], &st))));
        match r {
            Ok(x) => x,
            Err(e) => Some(Err(("panic".to_string(), e.downcast_ref::<String>().cloned().or_else(|| e.downcast_ref::<&str>().map(|s| (*s).to_string())).unwrap_or_default()))),
        }
    });
    for ((si, fi, f), r) in cases.iter().zip(res) {
        rep.inc("cases");
        rep.inc("tamper_cases");
        let (t, _, d) = &subs[*si].store.files[*fi];
        let reg = if let Fault::Flip { byte, .. } = f { region(&raw, *t, d, *byte) } else { "" };
        let class = format!("{}/{}{}", f.class(), ft_name(*t), if reg.is_empty() { String::new() } else { format!("/{reg}") });
        match r {
            None => rep.inc("tamper_not_applicable"),
            Some(Ok(())) => {
                rep.inc(&format!("held:{class}"));
                _ = rep.distinct("nontrivial", &(si, fi, format!("{f:?}")));
            }
            Some(Err((what, msg))) => {
                let sig = format!("C04/undetected/{class}/{what}");
                if !rep.has_violation(&sig) {
                    rep.violation(sig, format!("{}: {msg}", subs[*si].name), json!({"part": "tamper", "subject": subs[*si].name, "file_index": fi, "file_type": ft_name(*t), "fault": serde_json::to_value(f).unwrap()}));
                }
            }
        }
        if rep.samples.len() < 2 && matches!(f, Fault::SwapWith(_)) {
            rep.sample(json!({"part": "tamper", "subject": subs[*si].name, "file_index": fi, "file_type": ft_name(*t), "fault": serde_json::to_value(f).unwrap()}));
        }
    }
    // ---- (d)
    let alphabet = [Cred::AddKey(2), Cred::DeleteFirstKey, Cred::OpenPw(1), Cred::OpenPw(2), Cred::OpenWrong, Cred::OpenMaster, Cred::OpenOtherMaster];
    let mut hists: Vec<Vec<Cred>> = Vec::new();
    if quick {
        hists.push(vec![Cred::OpenPw(1), Cred::AddKey(2), Cred::OpenPw(2), Cred::DeleteFirstKey, Cred::OpenPw(1), Cred::OpenPw(2), Cred::OpenWrong, Cred::OpenMaster, Cred::OpenOtherMaster]);
        for a in &alphabet {
            for b in &alphabet {
                hists.push(vec![a.clone(), b.clone()]);
            }
        }
    } else {
        for a in &alphabet {
            for b in &alphabet {
                for c in &alphabet {
                    hists.push(vec![a.clone(), b.clone(), c.clone(), Cred::OpenPw(1), Cred::OpenPw(2), Cred::OpenMaster]);
                }
            }
        }
    }
    credential_channels(rep, args);
    for (i, h) in hists.iter().enumerate() {
        if !args.mine(i) {
            continue;
        }
        rep.inc("cases");
        rep.inc("credential_histories");
        if let Err((sig, msg)) = run_credentials(h, rep) {
            if !rep.has_violation(&sig) {
                rep.violation(sig, msg, json!({"part": "credentials", "history": serde_json::to_value(h).unwrap()}));
            }
        }
    }
}
