//! C16 — hot/cold repositories keep the hot copy complete at every moment.
//! CRASH over two stores + differential histories + cold store that rejects un-warmed reads +
//! every subset of hot files removed before the hot/cold repair.

use std::os::unix::ffi::OsStrExt;
use std::collections::BTreeMap;

use rustic_core::{
    ConfigOptions, FileType, KeyOptions, LimitOption, LocalDestination, LsOptions, PruneOptions,
    RepairIndexOptions, RestoreOptions,
};
use serde_json::{Value, json};
use vkit::{
    backend::{Store, ft_name},
    decode::{RawKey, canon_store, hex_id, pack_header},
    fsx::sandbox,
    logical::{LTree, diff, model_tree},
    rep::{Env, backup_with, bopts, master_key, read_all, tiny_config},
    report::{Args, Report},
    source::MemSource,
};

use crate::c02::{T0, source};

fn cfg() -> rustic_core::repofile::ConfigFile {
    let mut c = tiny_config(2);
    c.datapack_size = Some(600);
    c.datapack_growfactor = Some(0);
    c.treepack_size = Some(500);
    c.treepack_growfactor = Some(0);
    c
}

/// invariant (a): cold-listed key/snapshot/index/tree-pack files are in hot, byte-identical; no data pack in hot
fn hot_complete(raw: &RawKey, cold: &Store, hot: &Store) -> Result<(), (String, String)> {
    for (t, id, data) in &cold.files {
        match t {
            // the cold store is a complete repository of its own: its configuration is not marked hot
            // (a cold store marked hot cannot be opened alone), the hot one's is
            FileType::Config => {
                if let Ok(j) = vkit::decode::open_json(raw, data) {
                    if j["is_hot"].as_bool() == Some(true) {
                        return Err(("C16/cold-config-marked-hot".into(), "the configuration stored in the cold store is marked `is_hot`: the cold store cannot be opened on its own".into()));
                    }
                }
            }
            FileType::Key | FileType::Snapshot | FileType::Index => match hot.get(*t, id) {
                None => return Err((format!("C16/hot-incomplete/{}", ft_name(*t)), format!("{} {} is listed by the cold store but missing in the hot store", ft_name(*t), &hex_id(id)[..8]))),
                Some(h) if h != data => return Err((format!("C16/hot-differs/{}", ft_name(*t)), format!("{} {} differs between hot and cold", ft_name(*t), &hex_id(id)[..8]))),
                _ => {}
            },
            FileType::Pack => {
                let is_tree = pack_header(raw, data).is_ok_and(|h| !h.is_empty() && h.iter().all(|b| b.tpe == 1));
                match (is_tree, hot.get(*t, id)) {
                    (true, None) => return Err(("C16/hot-incomplete/tree-pack".into(), format!("tree pack {} is listed by the cold store but missing in the hot store", &hex_id(id)[..8]))),
                    (true, Some(h)) if h != data => return Err(("C16/hot-differs/tree-pack".into(), format!("tree pack {} differs", &hex_id(id)[..8]))),
                    (false, Some(_)) => return Err(("C16/data-pack-in-hot".into(), format!("data pack {} is stored in the hot store", &hex_id(id)[..8]))),
                    _ => {}
                }
            }
        }
    }
    for (t, id, data) in &hot.files {
        if *t == FileType::Pack {
            let is_tree = pack_header(raw, data).is_ok_and(|h| !h.is_empty() && h.iter().all(|b| b.tpe == 1));
            if !is_tree {
                return Err(("C16/data-pack-in-hot".into(), format!("pack {} in the hot store is not a tree pack", &hex_id(id)[..8])));
            }
        }
    }
    Ok(())
}

type Step = (&'static str, Box<dyn Fn(&Env, &mut BTreeMap<String, LTree>) -> Result<(), String>>);

fn es<T>(r: rustic_core::RusticResult<T>) -> Result<T, String> {
    r.map_err(|e| e.display_log())
}

fn prune_with(env: &Env, o: &PruneOptions) -> Result<(), String> {
    let repo = es(env.open())?;
    let plan = es(repo.prune_plan(o))?;
    es(repo.prune(o, plan))
}

/// the history run on a hot/cold pair and on a single store
fn history() -> Vec<Step> {
    let bk = |v: usize| -> Step {
        (
            "backup",
            Box::new(move |env, model| {
                let repo = es(env.open_ids())?;
                _ = es(backup_with(&repo, &MemSource::new("r", source(v)), &format!("s{v}"), T0 + 1000 + v as i64, &bopts()))?;
                _ = model.insert(format!("s{v}"), model_tree("r", &source(v)));
                Ok(())
            }),
        )
    };
    vec![
        (
            "init",
            Box::new(|env, _| {
                let mut c = cfg();
                if env.hot.is_some() {
                    // as `init` does: the handle's config is the one of the hot store
                    c.is_hot = Some(true);
                }
                es(env.init_with(c)).map(|_| ())
            }),
        ),
        bk(0),
        bk(1),
        (
            "add-key",
            Box::new(|env, _| {
                let repo = es(env.open())?;
                es(repo.add_key("pw", &KeyOptions::default())).map(|_| ())
            }),
        ),
        (
            "forget",
            Box::new(|env, model| {
                let repo = es(env.open())?;
                let ids: Vec<_> = es(repo.get_all_snapshots())?.iter().filter(|s| s.label == "s0").map(|s| s.id).collect();
                es(repo.delete_snapshots(&ids))?;
                _ = model.remove("s0");
                Ok(())
            }),
        ),
        // (the default of repack-cacheable-only differs on purpose between hot/cold and single-store
        // repositories; with the option given explicitly the resulting stores must agree)
        ("prune-mark", Box::new(|env, _| prune_with(env, &PruneOptions::default().repack_cacheable_only(Some(false)).max_unused(LimitOption::Percentage(0)).max_repack(LimitOption::Unlimited)))),
        bk(2),
        ("prune-delete-and-repack", Box::new(|env, _| prune_with(env, &PruneOptions::default().repack_cacheable_only(Some(false)).max_unused(LimitOption::Percentage(0)).max_repack(LimitOption::Unlimited).repack_all(true).keep_delete(jiff::Span::new())))),
        (
            "apply-config",
            Box::new(|env, _| {
                let mut repo = es(env.open())?;
                es(repo.apply_config(&ConfigOptions::default().set_compression(3))).map(|_| ())
            }),
        ),
        (
            "copy-into",
            Box::new(|env, model| {
                let src = Env::single();
                _ = es(src.init_with(tiny_config(2)))?;
                let r = es(src.open_ids())?;
                _ = es(backup_with(&r, &MemSource::new("r", source(6)), "foreign", T0 + 5000, &bopts()))?;
                let srcf = es(src.open_full())?;
                let snaps = es(srcf.get_all_snapshots())?;
                let dst = es(env.open_ids())?;
                es(srcf.copy(&dst, snaps.iter()))?;
                _ = model.insert("foreign".into(), model_tree("r", &source(6)));
                Ok(())
            }),
        ),
        (
            "delete-key",
            Box::new(|env, _| {
                let repo = es(env.open())?;
                let keys: Vec<rustic_core::repofile::KeyId> = es(repo.list())?.collect();
                match keys.first() {
                    Some(k) => es(repo.delete_key(k)),
                    None => Ok(()),
                }
            }),
        ),
    ]
}

fn compare_model(env: &Env, model: &BTreeMap<String, LTree>, what: &str) -> Result<(), (String, String)> {
    let got = read_all(env).map_err(|e| (format!("C16/{what}/read"), e))?;
    for (l, t) in model {
        if let Some(d) = got.get(l).map_or(Some("missing".to_string()), |g| diff(t, g)) {
            return Err((format!("C16/{what}/read"), format!("snapshot {l}: {d}")));
        }
    }
    if got.len() != model.len() {
        return Err((format!("C16/{what}/read"), format!("snapshots {:?}, model {:?}", got.keys().collect::<Vec<_>>(), model.keys().collect::<Vec<_>>())));
    }
    Ok(())
}

/// (a) + (b)
fn part_crash_and_differential(raw: &RawKey, rep: &mut Report, count: bool) -> Result<(Env, BTreeMap<String, LTree>), (String, String)> {
    let hc = Env::hotcold();
    let single = Env::single();
    hc.world.lock().unwrap().record_states = true;
    let mut model_hc = BTreeMap::new();
    let mut model_s = BTreeMap::new();
    for (name, step) in history() {
        hc.world.lock().unwrap().states.clear();
        step(&hc, &mut model_hc).map_err(|e| (format!("C16/{name}/error"), format!("on the hot/cold pair: {e}")))?;
        step(&single, &mut model_s).map_err(|e| (format!("C16/{name}/single-error"), e))?;
        if count {
            rep.inc("transitions");
        }
        // every state after each mutating call of this command
        let states = hc.world.lock().unwrap().states.clone();
        for (k, st) in states.iter().enumerate() {
            if count {
                rep.inc("crash_states");
                _ = rep.distinct("state", &(canon_store(raw, &st[0]), canon_store(raw, &st[1])));
            }
            hot_complete(raw, &st[0], &st[1]).map_err(|(s, m)| (s, format!("during {name}, after mutating call {k} of {}: {m}", states.len())))?;
        }
        // same result as on a single store
        let (c1, c2) = (canon_store(raw, &hc.store()), canon_store(raw, &single.store()));
        let strip = |v: Vec<String>| -> Vec<String> { v.into_iter().filter(|l| !l.starts_with("config#")).collect() };
        if name != "prune-default-options" && strip(c1.clone()) != strip(c2.clone()) {
            return Err((format!("C16/{name}/differs-from-single-store"), format!("cold store {c1:?} vs single store {c2:?}")));
        }
        if name != "init" {
            compare_model(&hc, &model_hc, name)?;
            compare_model(&single, &model_s, name)?;
        }
        if rep.samples.is_empty() && name == "backup" {
            rep.sample(json!({"history_step": name, "cold_store": c1, "hot_store": canon_store(raw, &hc.stores()[1])}));
        }
    }
    Ok((hc, model_hc))
}

/// (c) a cold store which rejects reads of packs that were not warmed up in the same command
fn part_cold_mode(raw: &RawKey, base: &Env, model: &BTreeMap<String, LTree>, rep: &mut Report, shard: usize) -> Result<(), (String, String)> {
    let mk = || {
        let stores = base.stores();
        let mut w = vkit::backend::World::from_stores(stores);
        w.cold[0] = true;
        w.needs_warm_up[0] = true;
        let mut e = Env::new(w.shared());
        e.hot = Some(1);
        e
    };
    let cold_ok = |env: &Env, what: &str| -> Result<(), (String, String)> {
        let w = env.world.lock().unwrap();
        if let Some(v) = w.cold_violations.first() {
            return Err((format!("C16/cold-read-without-warm-up/{what}"), format!("{what} read pack {} from the cold store without warming it up first ({} such reads)", &hex_id(&v.id)[..8], w.cold_violations.len())));
        }
        Ok(())
    };
    // restore
    {
        let env = mk();
        let sb = sandbox(&format!("c16-{shard}"));
        let repo = env.open_full().map_err(|e| ("C16/cold/open".to_string(), e.display_log()))?;
        env.world.lock().unwrap().reset_log();
        let snaps = repo.get_all_snapshots().map_err(|e| ("C16/cold/snapshots".to_string(), e.display_log()))?;
        for s in &snaps {
            let node = repo.node_from_snapshot_and_path(s, "").map_err(|e| ("C16/cold/restore".to_string(), e.display_log()))?;
            let ls = repo.ls(&node, &LsOptions::default().recursive(true)).map_err(|e| ("C16/cold/restore".to_string(), e.display_log()))?;
            let dest = LocalDestination::new(sb.join(&s.label).to_str().unwrap(), true, false).map_err(|e| ("C16/cold/restore".to_string(), e.display_log()))?;
            let opts = RestoreOptions::default().no_ownership(true);
            let plan = repo.prepare_restore(&opts, ls.clone(), &dest, false).map_err(|e| ("C16/cold/restore/error".to_string(), e.display_log()))?;
            let r = std::panic::catch_unwind(std::panic::AssertUnwindSafe(|| repo.restore(plan, &opts, ls, &dest)));
            cold_ok(&env, "restore")?;
            match r {
                Ok(Ok(())) => {}
                Ok(Err(e)) => return Err(("C16/cold/restore/error".into(), e.display_log())),
                Err(_) => return Err(("C16/cold/restore/panic".into(), "restore from a cold store panicked".into())),
            }
            // restored content equals the model
            let got = vkit::fsx::snapshot(&sb.join(&s.label));
            if let Some(m) = model.get(&s.label) {
                for (p, n) in m {
                    if n.kind == "file" {
                        let g = got.get(p).and_then(|x| x.data.as_ref()).map(|d| vkit::decode::sha256_hex(d));
                        if g != n.sha {
                            return Err(("C16/cold/restore/content".into(), format!("{} differs after restore from hot/cold", String::from_utf8_lossy(p))));
                        }
                    }
                }
            }
            rep.inc("cold_restores");
            // restore again into the now partly up-to-date destination: one file is removed, all
            // other files get another mtime (so their content is compared blob by blob), nothing
            // is warmed any more - every pack that is read must be requested again
            let files: Vec<Vec<u8>> = model.get(&s.label).map(|m| m.iter().filter(|(_, n)| n.kind == "file").map(|(p, _)| p.clone()).collect()).unwrap_or_default();
            for victim in files.iter().take(6) {
                for f in &files {
                    let path = sb.join(&s.label).join(std::ffi::OsStr::from_bytes(f));
                    if f == victim {
                        _ = std::fs::remove_file(&path);
                    } else {
                        vkit::fsx::set_mtime(&path, 1_500_000_000_000_000_000);
                    }
                }
                {
                    let mut w = env.world.lock().unwrap();
                    for x in &mut w.warmed {
                        x.clear();
                    }
                    w.reset_log();
                }
                let ls = repo.ls(&node, &LsOptions::default().recursive(true)).map_err(|e| ("C16/cold/restore".to_string(), e.display_log()))?;
                let plan = repo.prepare_restore(&opts, ls.clone(), &dest, false).map_err(|e| ("C16/cold/restore-partial/error".to_string(), e.display_log()))?;
                let r = std::panic::catch_unwind(std::panic::AssertUnwindSafe(|| repo.restore(plan, &opts, ls, &dest)));
                cold_ok(&env, "restore-into-partly-present-destination")?;
                match r {
                    Ok(Ok(())) => {}
                    Ok(Err(e)) => return Err(("C16/cold/restore-partial/error".into(), e.display_log())),
                    Err(_) => return Err(("C16/cold/restore-partial/panic".into(), "restore from a cold store into a partly present destination panicked".into())),
                }
                let got = vkit::fsx::snapshot(&sb.join(&s.label));
                if let Some(m) = model.get(&s.label) {
                    for (p, n) in m {
                        if n.kind == "file" && got.get(p).and_then(|x| x.data.as_ref()).map(|d| vkit::decode::sha256_hex(d)) != n.sha {
                            return Err(("C16/cold/restore-partial/content".into(), format!("{} differs after restoring into a partly present destination", String::from_utf8_lossy(p))));
                        }
                    }
                }
                rep.inc("cold_partial_restores");
            }
        }
        _ = std::fs::remove_dir_all(&sb);
    }
    // prune with repacking
    {
        let env = mk();
        let repo = env.open().map_err(|e| ("C16/cold/open".to_string(), e.display_log()))?;
        env.world.lock().unwrap().reset_log();
        let o = PruneOptions::default().repack_all(true).max_repack(LimitOption::Unlimited).keep_delete(jiff::Span::new());
        let plan = repo.prune_plan(&o).map_err(|e| ("C16/cold/prune-plan/error".to_string(), e.display_log()))?;
        let n = plan.repack_packs().len();
        let r = repo.prune(&o, plan);
        cold_ok(&env, "prune-repack")?;
        r.map_err(|e| ("C16/cold/prune/error".to_string(), e.display_log()))?;
        if n > 0 {
            rep.inc("cold_prune_repacks");
        }
        let st = env.stores();
        hot_complete(raw, &st[0], &st[1])?;
    }
    // the same as a dry run: pack headers are still read, so the packs must still be requested
    {
        let env = mk();
        let repo = env.open().map_err(|e| ("C16/cold/open".to_string(), e.display_log()))?;
        env.world.lock().unwrap().reset_log();
        let r = repo.repair_index(&RepairIndexOptions::default().read_all(true), true);
        cold_ok(&env, "repair-index-dry-run")?;
        r.map_err(|e| ("C16/cold/repair-index-dry-run/error".to_string(), e.display_log()))?;
        rep.inc("cold_repair_index_dry");
    }
    // repair index reading pack headers (all packs)
    {
        let env = mk();
        let repo = env.open().map_err(|e| ("C16/cold/open".to_string(), e.display_log()))?;
        env.world.lock().unwrap().reset_log();
        let r = repo.repair_index(&RepairIndexOptions::default().read_all(true), false);
        cold_ok(&env, "repair-index")?;
        r.map_err(|e| ("C16/cold/repair-index/error".to_string(), e.display_log()))?;
        rep.inc("cold_repair_index");
        let st = env.stores();
        hot_complete(raw, &st[0], &st[1])?;
    }
    Ok(())
}

/// (d) every subset of hot files removed; the hot/cold repair must recreate the hot store
fn part_repair(raw: &RawKey, base: &Env, model: &BTreeMap<String, LTree>, rep: &mut Report, args: &Args) -> Result<(), (String, String)> {
    let stores = base.stores();
    let listed: Vec<(FileType, rustic_core::Id)> = stores[1].files.iter().map(|(t, i, _)| (*t, *i)).collect();
    // interleave the file types (config, key, snapshot, index, pack, config, ...) so that the subsets
    // of the first k files reach every type, index files written late in the history included
    let mut by_type: Vec<std::collections::VecDeque<(FileType, rustic_core::Id)>> = [FileType::Config, FileType::Key, FileType::Snapshot, FileType::Index, FileType::Pack]
        .iter()
        .map(|t| listed.iter().filter(|(ft, _)| ft == t).copied().collect())
        .collect();
    let mut hot_files: Vec<(FileType, rustic_core::Id)> = Vec::new();
    while by_type.iter().any(|q| !q.is_empty()) {
        for q in &mut by_type {
            if let Some(f) = q.pop_front() {
                hot_files.push(f);
            }
        }
    }
    let n = hot_files.len();
    let k = n.min(if args.quick() { 9 } else { 12 });
    rep.note(format!("hot store holds {n} files; all subsets of the first {k} (types interleaved: {:?}) are removed", hot_files.iter().take(k).map(|(t, _)| vkit::backend::ft_name(*t)).collect::<Vec<_>>()));
    // a file only the hot store holds (a write cut off between the hot and the cold store): a second
    // copy of an index file under another name - the repair then has work in both directions for
    // one file type whenever an index file is also missing in the hot store
    let hot_only: Option<(rustic_core::Id, bytes::Bytes)> = stores[1].ids(FileType::Index).first().map(|id| {
        let name: rustic_core::Id = "77".repeat(32).parse().expect("id");
        (name, stores[1].get(FileType::Index, id).unwrap().clone())
    });
    for (mask, with_hot_only) in (1u32..(1u32 << k)).flat_map(|m| [(m, false), (m, true)]) {
        if mask as usize % args.nshards != args.shard {
            continue;
        }
        let mut hot = stores[1].clone();
        for (i, (t, id)) in hot_files.iter().take(k).enumerate() {
            if mask & (1 << i) != 0 {
                _ = hot.del(*t, id);
            }
        }
        if with_hot_only {
            let Some((name, data)) = &hot_only else { continue };
            hot.put(FileType::Index, name, data.clone());
            rep.inc("repairs_with_a_hot_only_file");
        }
        let config_removed = hot.get(FileType::Config, &rustic_core::Id::default()).is_none();
        let mut e = Env::new(vkit::backend::World::from_stores(vec![stores[0].clone(), hot]).shared());
        e.hot = Some(1);
        rep.inc("executions");
        rep.inc("hot_subsets_removed");
        let r = (|| -> Result<(), String> {
            es(es(e.new_repo())?.repair_hotcold_except_packs(false))?;
            let repo = if config_removed {
                let r = es(es(e.new_repo())?.open_only_cold(&e.creds()))?;
                es(r.init_hot())?;
                r
            } else {
                es(e.open())?
            };
            es(repo.repair_hotcold_packs(false))
        })();
        let case = json!({"part": "repair", "removed_hot_files_mask": mask, "hot_only_index_copy": with_hot_only});
        if let Err(m) = r {
            let sig = format!("C16/repair/error{}", if config_removed { "/config-removed" } else { "" });
            if !rep.has_violation(&sig) {
                rep.violation(sig, m, case);
            }
            continue;
        }
        let st = e.stores();
        let res = hot_complete(raw, &st[0], &st[1]).and_then(|()| compare_model(&e, model, "repair"));
        if let Err((sig, msg)) = res {
            let sig = format!("{sig}[after-repair]");
            if !rep.has_violation(&sig) {
                rep.violation(sig, format!("after removing hot files {mask:b}: {msg}"), case);
            }
        } else {
            _ = rep.distinct("state", &("repaired", mask, with_hot_only));
        }
    }
    Ok(())
}

pub fn run(args: &Args, rep: &mut Report) {
    let raw = RawKey::from_master(&master_key());
    std::panic::set_hook(Box::new(|_| {}));
    rep.set_meta("bounds", json!("one 11-step history (init, 3 backups, key add/delete, forget, prune mark, prune delete+repack-all, config change, copy-into) on a hot/cold pair and on a single store: every (cold,hot) state after every mutating backend call is checked; cold-mode store for restore, prune repack, repair-index --read-all; every subset of the first 9 (quick) / 12 (thorough) hot files removed before the hot/cold repair, each with and without a file that only the hot store holds"));
    if args.replay.is_some() {
        // the parts are small: a replay re-runs everything
        rep.note("replay re-runs the complete check");
    }
    let (hc, model) = match part_crash_and_differential(&raw, rep, args.shard == 0 || args.replay.is_some()) {
        Ok(x) => x,
        Err((sig, msg)) => {
            rep.violation(sig, msg, json!({"part": "history"}));
            return;
        }
    };
    if args.shard == 0 || args.replay.is_some() {
        rep.inc("executions");
        if let Err((sig, msg)) = part_cold_mode(&raw, &hc, &model, rep, args.shard) {
            rep.violation(sig, msg, json!({"part": "cold-mode"}));
        }
        // check --read-data on a hot/cold pair
        let errs = vkit::rep::check_errors(&hc, true).unwrap_or_else(|e| vec![e]);
        rep.inc("executions");
        if !errs.is_empty() {
            rep.violation("C16/check-read-data-fails-on-hot-cold", format!("check --read-data on an intact hot/cold repository reports: {}", errs[0].chars().take(300).collect::<String>()), json!({"part": "check"}));
        }
    }
    if let Err((sig, msg)) = part_repair(&raw, &hc, &model, rep, args) {
        rep.violation(sig, msg, json!({"part": "repair"}));
    }
    let _ = Value::Null;
}
