//! C18 — accepted configurations work; refused or unnamed settings change nothing.
//! ENUM over ConfigOptions values (per-field boundaries, interacting groups as full products),
//! applied at init and as init(A);apply(B) sequences; smoke run of every accepted configuration in
//! a child process; prune limit values.

use std::{
    collections::BTreeSet,
    io::Read,
    panic::{AssertUnwindSafe, catch_unwind},
    process::{Command, Stdio},
    time::{Duration, Instant},
};

use bytesize::ByteSize;
use rustic_core::{
    ConfigOptions, FileType, LimitOption, PruneOptions,
    repofile::{Chunker, ConfigFile},
};
use serde_json::{Value, json};
use vkit::{
    decode::independent_read,
    logical::{diff, model_tree},
    rep::{Env, backup_with, base_config, bopts, check_errors},
    report::{Args, Report},
    source::{Entry, MemSource},
};

use crate::{c02::T0, c13::lcg};

/// a ConfigOptions as JSON (so that cases can be replayed and passed to the child process)
fn opts_from(v: &Value) -> ConfigOptions {
    let mut o = ConfigOptions::default();
    let u = |k: &str| v[k].as_u64();
    let bs = |k: &str| v[k].as_u64().map(ByteSize);
    o.set_version = u("version").map(|x| x as u32);
    o.set_chunker = v["chunker"].as_str().map(|s| if s == "fixed" { Chunker::FixedSize } else { Chunker::Rabin });
    o.set_chunk_size = bs("chunk_size");
    o.set_chunk_min_size = bs("chunk_min_size");
    o.set_chunk_max_size = bs("chunk_max_size");
    o.set_compression = v["compression"].as_i64().map(|x| x as i32);
    o.set_append_only = v["append_only"].as_bool();
    o.set_treepack_size = bs("treepack_size");
    o.set_treepack_size_limit = bs("treepack_size_limit");
    o.set_treepack_growfactor = u("treepack_growfactor").map(|x| x as u32);
    o.set_datapack_size = bs("datapack_size");
    o.set_datapack_growfactor = u("datapack_growfactor").map(|x| x as u32);
    o.set_datapack_size_limit = bs("datapack_size_limit");
    o.set_min_packsize_tolerate_percent = u("min_percent").map(|x| x as u32);
    o.set_max_packsize_tolerate_percent = u("max_percent").map(|x| x as u32);
    o.set_extra_verify = v["extra_verify"].as_bool();
    o
}

/// which ConfigFile fields (by serialised key) an option names
fn named_fields(v: &Value) -> BTreeSet<&'static str> {
    let map = [
        ("version", "version"),
        ("chunker", "chunker"),
        ("chunk_size", "chunk_size"),
        ("chunk_min_size", "chunk_min_size"),
        ("chunk_max_size", "chunk_max_size"),
        ("compression", "compression"),
        ("append_only", "append_only"),
        ("treepack_size", "treepack_size"),
        ("treepack_size_limit", "treepack_size_limit"),
        ("treepack_growfactor", "treepack_growfactor"),
        ("datapack_size", "datapack_size"),
        ("datapack_growfactor", "datapack_growfactor"),
        ("datapack_size_limit", "datapack_size_limit"),
        ("min_percent", "min_packsize_tolerate_percent"),
        ("max_percent", "max_packsize_tolerate_percent"),
        ("extra_verify", "extra_verify"),
    ];
    map.iter().filter(|(k, _)| !v[*k].is_null()).map(|(_, f)| *f).collect()
}

fn cfg_json(c: &ConfigFile) -> Value {
    serde_json::to_value(c).expect("config json")
}

const U32MAX: u64 = u32::MAX as u64;

fn option_cases(thorough: bool) -> Vec<Value> {
    let mut v: Vec<Value> = Vec::new();
    // per-field boundary values
    let sizes = [0u64, 1, 4096, U32MAX, u64::MAX];
    for f in ["chunk_size", "chunk_min_size", "chunk_max_size", "treepack_size", "treepack_size_limit", "datapack_size", "datapack_size_limit"] {
        for s in sizes {
            v.push(json!({ f: s }));
        }
    }
    for f in ["treepack_growfactor", "datapack_growfactor", "min_percent", "max_percent"] {
        for s in [0u64, 1, 50, 99, 100, 101, U32MAX] {
            v.push(json!({ f: s }));
        }
    }
    for ver in [0u64, 1, 2, 3, U32MAX] {
        v.push(json!({ "version": ver }));
    }
    for c in [-131_073i64, -131_072, -7, 0, 1, 22, 23, i64::from(i32::MAX)] {
        v.push(json!({ "compression": c }));
    }
    for b in [true, false] {
        v.push(json!({ "append_only": b }));
        v.push(json!({ "extra_verify": b }));
    }
    // chunker group: full product
    let csz: &[u64] = if thorough { &[0, 1, 64, 100, 4096, 1 << 20] } else { &[0, 64, 100, 4096] };
    let cmin: &[u64] = if thorough { &[0, 1, 63, 64, 65, 4096] } else { &[0, 63, 64, 4096] };
    let cmax: &[u64] = if thorough { &[0, 64, 4096, 16384, U32MAX] } else { &[64, 4096, 16384] };
    for ch in ["rabin", "fixed"] {
        for s in csz {
            for mi in cmin {
                for ma in cmax {
                    v.push(json!({"chunker": ch, "chunk_size": s, "chunk_min_size": mi, "chunk_max_size": ma}));
                }
            }
        }
    }
    // pack size group per type: full product
    let psz: &[u64] = &[0, 1, 5000, U32MAX];
    let grow: &[u64] = &[0, 1, 32, U32MAX];
    let lim: &[u64] = &[0, 1, 5000, U32MAX];
    for s in psz {
        for g in grow {
            for l in lim {
                v.push(json!({"datapack_size": s, "datapack_growfactor": g, "datapack_size_limit": l}));
                v.push(json!({"treepack_size": s, "treepack_growfactor": g, "treepack_size_limit": l}));
            }
        }
    }
    // version x compression
    for ver in [1u64, 2] {
        for c in [-7i64, 0, 3, 22] {
            v.push(json!({"version": ver, "compression": c}));
        }
    }
    // the two percents
    for a in [0u64, 30, 100] {
        for b in [0u64, 100, 300] {
            v.push(json!({"min_percent": a, "max_percent": b}));
        }
    }
    v
}

fn base_configs() -> Vec<(&'static str, ConfigFile)> {
    let mut v = vec![("v2-default", base_config(2)), ("v1", base_config(1))];
    let mut c = base_config(2);
    c.extra_verify = Some(false);
    c.compression = Some(5);
    c.treepack_size = Some(3000);
    c.chunk_size = Some(128);
    c.chunk_min_size = Some(64);
    c.chunk_max_size = Some(512);
    c.append_only = Some(false);
    v.push(("v2-customised", c));
    v
}

/// apply B to a repository initialised with `base`; checks (i)-(iii); returns the resulting config if accepted
fn apply_case(base: &ConfigFile, b: &Value) -> Result<Option<ConfigFile>, (String, String)> {
    let field = named_fields(b).into_iter().collect::<Vec<_>>().join("+");
    let env = Env::single();
    _ = env.init_with(base.clone()).map_err(|e| ("C18/init".to_string(), e.display_log()))?;
    let stored_before = env.store().get(FileType::Config, &rustic_core::Id::default()).cloned();
    let mut repo = env.open().map_err(|e| ("C18/open".to_string(), e.display_log()))?;
    let before = repo.config().clone();
    let opts = opts_from(b);
    let res = catch_unwind(AssertUnwindSafe(|| repo.apply_config(&opts)));
    let res = match res {
        Ok(r) => r,
        Err(e) => {
            let m = e.downcast_ref::<String>().cloned().or_else(|| e.downcast_ref::<&str>().map(|s| (*s).to_string())).unwrap_or_default();
            return Err((format!("C18/apply-panics/{field}"), format!("apply_config({b}) panicked: {m}")));
        }
    };
    let stored_after = env.store().get(FileType::Config, &rustic_core::Id::default()).cloned();
    match res {
        Err(_) => {
            if stored_after != stored_before {
                return Err((format!("C18/refused-but-stored/{field}"), format!("apply_config({b}) was refused but the stored config changed")));
            }
            if cfg_json(repo.config()) != cfg_json(&before) {
                return Err((format!("C18/refused-but-changed-in-memory/{field}"), format!("apply_config({b}) was refused but the handle's config changed")));
            }
            Ok(None)
        }
        Ok(_changed) => {
            // what a fresh handle reads is what counts
            let fresh = env.open().map_err(|e| (format!("C18/reopen-fails/{field}"), format!("after apply_config({b}): {}", e.display_log())))?;
            let after = fresh.config().clone();
            let (jb, ja) = (cfg_json(&before), cfg_json(&after));
            let named = named_fields(b);
            for (k, vb) in jb.as_object().unwrap() {
                let va = &ja[k];
                if !named.contains(k.as_str()) && va != vb {
                    return Err((format!("C18/unnamed-setting-changed/{k}"), format!("apply_config({b}) changed `{k}` from {vb} to {va}")));
                }
            }
            if after.version < before.version {
                return Err(("C18/version-downgrade".into(), format!("version went from {} to {}", before.version, after.version)));
            }
            Ok(Some(after))
        }
    }
}

fn smoke_source(slow_compression: bool) -> Entry {
    let mut t = Entry::dir(T0);
    // zstd levels >= 20 need ~0.1 s per blob: keep the number of chunks small there
    let big = if slow_compression { 6_000 } else { 70_000 };
    for (i, n) in [0usize, 1, 63, 64, 65, 5000, big].iter().enumerate() {
        t.insert(&format!("f{i}"), Entry::file(lcg(40 + i as u64, *n), T0 + 1));
    }
    t.insert("z/zeros", Entry::file(vec![0u8; 9000], T0 + 2));
    t
}

/// executed in the child process: exit code 0 ok, 3 violation (message on stdout)
pub fn smoke_child(cfg_json_str: &str) -> i32 {
    let cfg: ConfigFile = match serde_json::from_str(cfg_json_str) {
        Ok(c) => c,
        Err(e) => {
            println!("bad config json: {e}");
            return 2;
        }
    };
    // schedule dimension: tree-loader worker threads selected by the mask leave late (see `sched_cases`)
    if let Some(mask) = std::env::var("VERIF_LOADER_EXIT_MASK").ok().and_then(|m| m.parse::<usize>().ok()) {
        static HITS: std::sync::atomic::AtomicUsize = std::sync::atomic::AtomicUsize::new(0);
        rustic_core::verif::point::set(Some(std::sync::Arc::new(move |label| {
            if label == "tree_loader.exit" {
                let k = HITS.fetch_add(1, std::sync::atomic::Ordering::SeqCst) % 4;
                if mask >> k & 1 == 1 {
                    std::thread::sleep(Duration::from_millis(300));
                }
            }
        })));
    }
    let r = catch_unwind(AssertUnwindSafe(|| -> Result<(), String> {
        let env = Env::single();
        let t = smoke_source(cfg.compression.is_some_and(|c| c >= 20));
        _ = env.init_with(cfg).map_err(|e| format!("init: {}", e.display_log()))?;
        let repo = env.open_ids().map_err(|e| format!("open: {}", e.display_log()))?;
        _ = backup_with(&repo, &MemSource::new("r", t.clone()), "s0", T0 + 1000, &bopts()).map_err(|e| format!("backup: {}", e.display_log()))?;
        let errs = check_errors(&env, true)?;
        if !errs.is_empty() {
            return Err(format!("check: {}", errs.join(" | ")));
        }
        let got = independent_read(&env.raw, &env.store())?;
        if let Some(d) = got.get("s0").map_or(Some("snapshot missing".to_string()), |g| diff(&model_tree("r", &t), g)) {
            return Err(format!("restore differs: {d}"));
        }
        let all = vkit::rep::read_all(&env)?;
        if let Some(d) = all.get("s0").map_or(Some("snapshot missing".to_string()), |g| diff(&model_tree("r", &t), g)) {
            return Err(format!("restore (API) differs: {d}"));
        }
        let repo = env.open().map_err(|e| format!("open: {}", e.display_log()))?;
        _ = repo.prune_plan(&PruneOptions::default()).map_err(|e| format!("prune_plan: {}", e.display_log()))?;
        Ok(())
    }));
    match r {
        Ok(Ok(())) => 0,
        Ok(Err(m)) => {
            println!("ERROR {m}");
            3
        }
        Err(e) => {
            println!("PANIC {}", e.downcast_ref::<String>().cloned().or_else(|| e.downcast_ref::<&str>().map(|s| (*s).to_string())).unwrap_or_default());
            4
        }
    }
}

fn smoke(cfg: &ConfigFile) -> Result<(), (String, String)> {
    smoke_masked(cfg, None)
}

/// `mask`: bit k set = the k-th (mod 4) tree-loader worker thread to finish stays alive 300 ms longer
fn smoke_masked(cfg: &ConfigFile, mask: Option<usize>) -> Result<(), (String, String)> {
    let exe = std::env::current_exe().expect("exe");
    let mut cmd = Command::new(exe);
    if let Some(m) = mask {
        _ = cmd.env("VERIF_LOADER_EXIT_MASK", m.to_string());
    } else {
        _ = cmd.env_remove("VERIF_LOADER_EXIT_MASK");
    }
    let mut child = cmd
        .arg("c18-smoke")
        .arg(serde_json::to_string(cfg).unwrap())
        .env("RUST_BACKTRACE", "0")
        .stdout(Stdio::piped())
        .stderr(Stdio::null())
        .spawn()
        .expect("spawn smoke child");
    let start = Instant::now();
    loop {
        match child.try_wait().expect("wait") {
            Some(st) => {
                let mut out = String::new();
                _ = child.stdout.take().map(|mut o| o.read_to_string(&mut out));
                return match st.code() {
                    Some(0) => Ok(()),
                    Some(3) => Err(("C18/smoke/error".into(), out.trim().to_string())),
                    Some(4) => {
                        let class = if out.contains("overflow") {
                            "overflow"
                        } else if out.contains("divide by zero") {
                            "divide-by-zero"
                        } else {
                            "other"
                        };
                        Err((format!("C18/smoke/panic/{class}"), out.trim().to_string()))
                    }
                    other => Err(("C18/smoke/abort".into(), format!("child ended with {other:?}: {}", out.trim()))),
                };
            }
            None if start.elapsed() > Duration::from_secs(180) => {
                _ = child.kill();
                return Err(("C18/smoke/hang".into(), "backup/check/restore did not finish within 180 s".into()));
            }
            None => std::thread::sleep(Duration::from_millis(5)),
        }
    }
}

fn smoke_signature_detail(cfg: &ConfigFile) -> String {
    // coarse class of the configuration for stable signatures
    let mut parts = Vec::new();
    if cfg.chunker == Some(Chunker::FixedSize) {
        parts.push("fixed-chunker");
    }
    if cfg.datapack_growfactor.is_some_and(|g| g > 1000) || cfg.treepack_growfactor.is_some_and(|g| g > 1000) {
        parts.push("huge-growfactor");
    }
    if cfg.datapack_size == Some(0) || cfg.treepack_size == Some(0) || cfg.datapack_size_limit == Some(0) || cfg.treepack_size_limit == Some(0) {
        parts.push("zero-packsize");
    }
    if cfg.chunk_max_size.is_some_and(|m| m as u64 >= U32MAX) {
        parts.push("huge-chunk-max");
    }
    parts.join("+")
}

fn prune_limit_cases() -> Vec<(String, LimitOption)> {
    let mut v = Vec::new();
    for p in [0u64, 50, 99, 100, 101, u64::MAX] {
        v.push((format!("{p}%"), LimitOption::Percentage(p)));
    }
    for s in [0u64, 1, u64::MAX] {
        v.push((format!("size {s}"), LimitOption::Size(ByteSize(s))));
    }
    v.push(("unlimited".into(), LimitOption::Unlimited));
    v
}

fn prune_limits(rep: &mut Report, args: &Args) {
    // a repository where prune has something to decide
    let env = Env::single();
    let mut cfg = vkit::rep::tiny_config(2);
    cfg.datapack_size = Some(600);
    cfg.datapack_growfactor = Some(0);
    _ = env.init_with(cfg).expect("init");
    for v in 0..2 {
        let repo = env.open_ids().expect("open");
        _ = backup_with(&repo, &MemSource::new("r", crate::c02::source(v)), &format!("s{v}"), T0 + 1000 + v as i64, &bopts()).expect("backup");
    }
    let repo = env.open().expect("open");
    let ids: Vec<_> = repo.get_all_snapshots().unwrap().iter().filter(|s| s.label == "s0").map(|s| s.id).collect();
    repo.delete_snapshots(&ids).expect("forget");
    let store = env.store();
    let lims = prune_limit_cases();
    let mut i = 0usize;
    for (nu, mu) in &lims {
        for (nr, mr) in &lims {
            i += 1;
            if !args.mine(i) {
                continue;
            }
            rep.inc("cases");
            rep.inc("prune_limit_cases");
            let e2 = env.fork(store.clone());
            let opts = PruneOptions::default().max_unused(*mu).max_repack(*mr).keep_delete(jiff::Span::new());
            let r = catch_unwind(AssertUnwindSafe(|| -> Result<(), String> {
                let repo = e2.open().map_err(|e| e.display_log())?;
                let plan = repo.prune_plan(&opts).map_err(|e| e.display_log())?;
                repo.prune(&opts, plan).map_err(|e| e.display_log())
            }));
            match r {
                Ok(Ok(())) => {
                    rep.inc("prune_limit_ok");
                    _ = rep.distinct("nontrivial", &("prune", nu, nr));
                    // the repository must still be fine
                    if let Ok(errs) = check_errors(&e2, true) {
                        if !errs.is_empty() {
                            rep.violation(format!("C18/prune-limit/check-errors/{nu}"), errs.join(" | "), json!({"part": "prune", "max_unused": nu, "max_repack": nr}));
                        }
                    }
                }
                Ok(Err(_)) => rep.inc("prune_limit_err"),
                Err(e) => {
                    let m = e.downcast_ref::<String>().cloned().or_else(|| e.downcast_ref::<&str>().map(|s| (*s).to_string())).unwrap_or_default();
                    let which = if nu.ends_with('%') && !matches!(nu.as_str(), "0%" | "50%" | "99%") { format!("max_unused={nu}") } else { format!("max_repack={nr}") };
                    let sig = format!("C18/prune-limit/panic/{which}");
                    if !rep.has_violation(&sig) {
                        rep.violation(sig, format!("prune with max_unused {nu}, max_repack {nr} panicked: {m}"), json!({"part": "prune", "max_unused": nu, "max_repack": nr}));
                    }
                }
            }
        }
    }
}

/// Worker-exit schedules: the four tree-loader threads of `check`/`prune` are detached; every subset of
/// them may still be alive when the command goes on. All 16 subsets, on each base configuration.
fn sched_cases(rep: &mut Report, args: &Args) {
    let mut i = 0usize;
    for (bname, base) in base_configs() {
        for mask in 0..16usize {
            i += 1;
            if !args.mine(i) {
                continue;
            }
            if args.quick() && bname != base_configs()[0].0 && mask != 15 {
                continue;
            }
            rep.inc("cases");
            rep.inc("sched_cases");
            let mut cfg = base.clone();
            cfg.append_only = None;
            match smoke_masked(&cfg, Some(mask)) {
                Ok(()) => rep.inc("sched_ok"),
                Err((sig, msg)) => {
                    let sig = format!("C18/sched/{}/tree-loader-exits-late", sig.trim_start_matches("C18/smoke/"));
                    if !rep.has_violation(&sig) {
                        rep.violation(sig, format!("base {bname}, late-exit mask {mask:04b}: {msg}"), json!({"part": "sched", "config": cfg_json(&cfg), "mask": mask}));
                    }
                }
            }
        }
    }
}

pub fn run(args: &Args, rep: &mut Report) {
    std::panic::set_hook(Box::new(|_| {}));
    let thorough = !args.quick();
    rep.set_meta("rule", json!("ConfigOptions values: every field with {0, 1, interior, u32::MAX, u64::MAX} (sizes), {0,1,50,99,100,101,u32::MAX} (factors/percents), versions {0,1,2,3,u32::MAX}, compression incl. both ends of the zstd range +-1; full products of chunker x chunk_size x min x max, pack size x growfactor x limit per blob type, version x compression, min% x max%. Each applied to three initial configurations through apply_config on a real repository and through init; every distinct accepted configuration gets a smoke run (backup of files of length 0,1,63,64,65,5000,70000 + zeros, check --read-data, independent and API restore comparison, prune_plan) in a child process with a 180 s watchdog; prune with every pair of 10 limit values; the smoke run of each base configuration under every subset of the 4 detached tree-loader threads leaving 300 ms late. Non-trivial = distinct accepted resulting configurations"));
    if let Some(p) = &args.replay {
        let v: Value = serde_json::from_str(&std::fs::read_to_string(p).unwrap()).unwrap();
        let c = &v["case"];
        rep.inc("cases");
        match c["part"].as_str() {
            Some("smoke") => {
                let cfg: ConfigFile = serde_json::from_value(c["config"].clone()).unwrap();
                if let Err((sig, msg)) = smoke(&cfg) {
                    rep.violation(format!("{sig}/{}", smoke_signature_detail(&cfg)), msg, c.clone());
                }
            }
            Some("sched") => {
                let cfg: ConfigFile = serde_json::from_value(c["config"].clone()).unwrap();
                let mask = c["mask"].as_u64().unwrap_or(15) as usize;
                if let Err((sig, msg)) = smoke_masked(&cfg, Some(mask)) {
                    rep.violation(format!("C18/sched/{}/tree-loader-exits-late", sig.trim_start_matches("C18/smoke/")), msg, c.clone());
                }
            }
            Some("prune") => {
                // re-run the whole (small) prune grid; only the named pair matters for the verdict
                let mut a2 = args.clone();
                a2.replay = None;
                a2.shard = 0;
                a2.nshards = 1;
                prune_limits(rep, &a2);
            }
            _ => {
                let base: ConfigFile = serde_json::from_value(c["base"].clone()).unwrap();
                if let Err((sig, msg)) = apply_case(&base, &c["options"]) {
                    rep.violation(sig, msg, c.clone());
                }
            }
        }
        return;
    }
    let cases = option_cases(thorough);
    rep.set_meta("bounds", json!(format!("{} option vectors x 3 initial configurations + init; 100 prune limit pairs", cases.len())));
    let mut accepted: Vec<ConfigFile> = Vec::new();
    let mut seen: BTreeSet<String> = BTreeSet::new();
    let mut idx = 0usize;
    for (bname, base) in base_configs() {
        for b in &cases {
            idx += 1;
            if !args.mine(idx) {
                continue;
            }
            rep.inc("cases");
            rep.inc("apply_cases");
            match apply_case(&base, b) {
                Ok(None) => rep.inc("refused"),
                Ok(Some(cfg)) => {
                    rep.inc("accepted");
                    let mut c = cfg;
                    c.append_only = None; // irrelevant for the smoke run (and it would block nothing there)
                    if seen.insert(cfg_json(&c).to_string()) {
                        accepted.push(c);
                    }
                }
                Err((sig, msg)) => {
                    if !rep.has_violation(&sig) {
                        rep.violation(sig, msg, json!({"part": "apply", "base_name": bname, "base": cfg_json(&base), "options": b}));
                    }
                }
            }
            if rep.samples.len() < 3 && b.as_object().is_some_and(|o| o.len() == 4) {
                rep.sample(json!({"base": bname, "options": b}));
            }
        }
    }
    // init with options (init applies them to a fresh version-2 config)
    for b in &cases {
        idx += 1;
        if !args.mine(idx) {
            continue;
        }
        rep.inc("cases");
        rep.inc("init_cases");
        let env = Env::single();
        let opts = opts_from(b);
        let r = catch_unwind(AssertUnwindSafe(|| env.init_opts(&opts).map(|r| r.config().clone())));
        match r {
            Err(e) => {
                let m = e.downcast_ref::<String>().cloned().or_else(|| e.downcast_ref::<&str>().map(|s| (*s).to_string())).unwrap_or_default();
                let sig = format!("C18/init-panics/{}", named_fields(b).into_iter().collect::<Vec<_>>().join("+"));
                if !rep.has_violation(&sig) {
                    rep.violation(sig, format!("init({b}) panicked: {m}"), json!({"part": "init", "options": b}));
                }
            }
            Ok(Err(_)) => {
                rep.inc("refused");
                if !env.store().is_empty() {
                    rep.violation("C18/init-refused-but-wrote", format!("init({b}) was refused but wrote {} files", env.store().len()), json!({"part": "init", "options": b}));
                }
            }
            Ok(Ok(mut cfg)) => {
                rep.inc("accepted");
                // deterministic polynomial and id for the smoke run
                cfg.chunker_polynomial = vkit::rep::POLY.to_string();
                cfg.id = base_config(2).id;
                cfg.append_only = None;
                if seen.insert(cfg_json(&cfg).to_string()) {
                    accepted.push(cfg);
                }
            }
        }
    }
    // smoke runs of every distinct accepted configuration found by this shard
    for cfg in &accepted {
        if rep.over_budget() {
            break;
        }
        rep.inc("cases");
        rep.inc("smoke_runs");
        _ = rep.distinct("nontrivial", &cfg_json(cfg).to_string());
        if let Err((sig, msg)) = smoke(cfg) {
            let sig = format!("{sig}/{}", smoke_signature_detail(cfg));
            if !rep.has_violation(&sig) {
                rep.violation(sig, msg, json!({"part": "smoke", "config": cfg_json(cfg)}));
            }
        }
    }
    prune_limits(rep, args);
    sched_cases(rep, args);
}
