//! C09 — retention decisions follow the documented keep rules.
//! ENUM: boundary-dense timestamp multisets x option vectors x zones against a literal
//! reference implementation of the keep rules; metamorphic monotonicity.

use std::str::FromStr;

use jiff::{Span, Timestamp, Zoned, civil::DateTime, tz::TimeZone};
use rustic_core::{
    KeepOptions, StringList,
    repofile::{DeleteOption, SnapshotFile},
};
use serde_json::{Value, json};
use vkit::report::{Args, Report};

/// boundary-dense instants (civil UTC)
const INSTANTS: [&str; 16] = [
    "2016-01-03T12:00:00", // Sun, ISO 2015-W53
    "2016-01-04T12:00:00", // Mon, ISO 2016-W01
    "2018-01-01T00:00:30", // Mon, ISO 2018-W01
    "2018-01-01T00:01:10", // next minute
    "2018-01-02T10:20:00", // ISO 2018-W01
    "2018-06-30T23:59:59", // end of Q2/H1
    "2018-07-01T00:00:00", // start of Q3/H2
    "2018-12-30T12:00:00", // Sun, ISO 2018-W52
    "2018-12-31T10:20:00", // Mon, ISO 2019-W01 (calendar year 2018)
    "2018-12-31T23:59:59",
    "2019-01-01T00:00:00", // ISO 2019-W01
    "2019-01-01T10:20:00", // same minute-of-hour as other days
    "2019-01-01T10:20:45", // same minute
    "2019-01-01T11:20:00", // other hour, same minute number
    "2020-02-29T12:00:00", // leap day
    "2020-03-01T00:00:00",
];

const RULES: [&str; 9] = [
    "last",
    "minutely",
    "hourly",
    "daily",
    "weekly",
    "monthly",
    "quarter_yearly",
    "half_yearly",
    "yearly",
];

const SPANS: [&str; 6] = ["1m", "1h", "1d", "1w", "1mo", "1y"];

#[derive(Clone, Debug)]
struct Snap {
    inst: usize,
    tags: &'static str,
    /// 0 none, 1 never, 2 after(past), 3 after(future)
    mark: u8,
    id_byte: u8,
    /// which of two trees the snapshot holds (for delete-unchanged)
    tree: u8,
}

#[derive(Clone, Debug, Default)]
struct Opts {
    counters: [Option<i32>; 9],
    withins: [Option<&'static str>; 9],
    keep_tags: Option<&'static str>,
    /// a second tag list (a snapshot is kept if it carries all tags of *one* of the lists)
    keep_tags2: Option<&'static str>,
    keep_id: Option<&'static str>,
    keep_none: bool,
    delete_unchanged: bool,
}

impl Opts {
    fn to_json(&self) -> Value {
        let mut m = serde_json::Map::new();
        for (i, r) in RULES.iter().enumerate() {
            if let Some(c) = self.counters[i] {
                _ = m.insert(format!("keep_{r}"), json!(c));
            }
            if let Some(w) = self.withins[i] {
                let n = if i == 0 { "keep_within".to_string() } else { format!("keep_within_{r}") };
                _ = m.insert(n, json!(w));
            }
        }
        if let Some(t) = self.keep_tags {
            _ = m.insert("keep_tags".into(), json!(t));
        }
        if let Some(t) = self.keep_tags2 {
            _ = m.insert("keep_tags2".into(), json!(t));
        }
        if let Some(t) = self.keep_id {
            _ = m.insert("keep_id".into(), json!(t));
        }
        if self.keep_none {
            _ = m.insert("keep_none".into(), json!(true));
        }
        if self.delete_unchanged {
            _ = m.insert("delete_unchanged".into(), json!(true));
        }
        Value::Object(m)
    }
    fn from_json(v: &Value) -> Self {
        let mut o = Self::default();
        for (i, r) in RULES.iter().enumerate() {
            o.counters[i] = v[format!("keep_{r}")].as_i64().map(|x| x as i32);
            let n = if i == 0 { "keep_within".to_string() } else { format!("keep_within_{r}") };
            o.withins[i] = v[n].as_str().and_then(|s| SPANS.iter().find(|x| **x == s).copied());
        }
        o.keep_tags = v["keep_tags"].as_str().map(|s| if s == "foo" { "foo" } else { "foo,bar" });
        o.keep_tags2 = v["keep_tags2"].as_str().map(|s| if s == "baz" { "baz" } else { "foo,bar" });
        o.keep_id = v["keep_id"].as_str().map(|s| if s == "aa" { "aa" } else { "ff" });
        o.keep_none = v["keep_none"].as_bool().unwrap_or(false);
        o.delete_unchanged = v["delete_unchanged"].as_bool().unwrap_or(false);
        o
    }
    fn sig(&self) -> String {
        let mut names: Vec<String> = Vec::new();
        for (i, r) in RULES.iter().enumerate() {
            if self.counters[i].is_some() {
                names.push(format!("keep_{r}"));
            }
            if self.withins[i].is_some() {
                names.push(if i == 0 { "keep_within".into() } else { format!("keep_within_{r}") });
            }
        }
        if self.keep_tags.is_some() {
            names.push("keep_tags".into());
        }
        if self.keep_id.is_some() {
            names.push("keep_ids".into());
        }
        if self.keep_none {
            names.push("keep_none".into());
        }
        names.join("+")
    }
    fn to_keep(&self) -> KeepOptions {
        let mut k = KeepOptions::default();
        k.keep_last = self.counters[0];
        k.keep_minutely = self.counters[1];
        k.keep_hourly = self.counters[2];
        k.keep_daily = self.counters[3];
        k.keep_weekly = self.counters[4];
        k.keep_monthly = self.counters[5];
        k.keep_quarter_yearly = self.counters[6];
        k.keep_half_yearly = self.counters[7];
        k.keep_yearly = self.counters[8];
        let sp = |s: Option<&str>| s.map(|s| Span::from_str(s).unwrap());
        k.keep_within = sp(self.withins[0]);
        k.keep_within_minutely = sp(self.withins[1]);
        k.keep_within_hourly = sp(self.withins[2]);
        k.keep_within_daily = sp(self.withins[3]);
        k.keep_within_weekly = sp(self.withins[4]);
        k.keep_within_monthly = sp(self.withins[5]);
        k.keep_within_quarter_yearly = sp(self.withins[6]);
        k.keep_within_half_yearly = sp(self.withins[7]);
        k.keep_within_yearly = sp(self.withins[8]);
        if let Some(t) = self.keep_tags {
            k.keep_tags = vec![StringList::from_str(t).unwrap()];
        }
        if let Some(t) = self.keep_tags2 {
            k.keep_tags.push(StringList::from_str(t).unwrap());
        }
        if let Some(i) = self.keep_id {
            k.keep_ids = vec![i.to_string()];
        }
        k.keep_none = self.keep_none;
        k.delete_unchanged = self.delete_unchanged;
        k
    }
}

fn zone(z: usize) -> TimeZone {
    match z {
        0 => TimeZone::UTC,
        1 => TimeZone::fixed(jiff::tz::offset(5).saturating_add(jiff::SignedDuration::from_mins(30))),
        _ => TimeZone::fixed(jiff::tz::offset(-11)),
    }
}

fn instant(i: usize) -> Timestamp {
    DateTime::from_str(INSTANTS[i]).unwrap().to_zoned(TimeZone::UTC).unwrap().timestamp()
}

fn now() -> Zoned {
    DateTime::from_str("2021-01-01T00:00:00").unwrap().to_zoned(TimeZone::UTC).unwrap()
}

fn mk_snapshot(s: &Snap, z: usize) -> SnapshotFile {
    let mut sn = SnapshotFile::default();
    sn.time = instant(s.inst).to_zoned(zone(z));
    if !s.tags.is_empty() {
        sn.tags = StringList::from_str(s.tags).unwrap();
    }
    let idhex = format!("{:02x}", s.id_byte).repeat(32);
    sn.id = idhex.parse().unwrap();
    sn.tree = format!("{:02x}", 0xe0 + s.tree).repeat(32).parse().unwrap();
    sn.delete = match s.mark {
        1 => DeleteOption::Never,
        2 => DeleteOption::After(now().saturating_sub(Span::new().days(1))),
        3 => DeleteOption::After(now().saturating_add(Span::new().days(1))),
        _ => DeleteOption::NotSet,
    };
    sn
}

/// civil period key of rule `r` (1..=8) for a zoned time
fn period_key(r: usize, t: &Zoned) -> (i32, i32, i32, i32, i32) {
    let (y, mo, d, h, mi) = (
        i32::from(t.year()),
        i32::from(t.month()),
        i32::from(t.day()),
        i32::from(t.hour()),
        i32::from(t.minute()),
    );
    match r {
        1 => (y, mo, d, h, mi),
        2 => (y, mo, d, h, 0),
        3 => (y, mo, d, 0, 0),
        4 => {
            let w = t.date().iso_week_date();
            (i32::from(w.year()), i32::from(w.week()), 0, 0, -1)
        }
        5 => (y, mo, 0, 0, 0),
        6 => (y, (mo - 1) / 3, 0, 0, -2),
        7 => (y, (mo - 1) / 6, 0, 0, -3),
        8 => (y, 0, 0, 0, 0),
        _ => unreachable!(),
    }
}

/// Literal reference: returns keep decision per input index.
fn reference(snaps: &[SnapshotFile], o: &Opts, now: &Zoned) -> Vec<bool> {
    let n = snaps.len();
    let mut order: Vec<usize> = (0..n).collect();
    // newest first; ties keep input order (ties are only generated as fully identical snapshots)
    order.sort_by(|a, b| snaps[*b].time.cmp(&snaps[*a].time));
    let newest = snaps[order[0]].time.clone();
    let mut keep = vec![false; n];
    let mut counters = o.counters;
    for (pos, &i) in order.iter().enumerate() {
        let sn = &snaps[i];
        // delete marks decide first
        match &sn.delete {
            DeleteOption::Never => {
                keep[i] = true;
                continue;
            }
            DeleteOption::After(t) if t >= now => {
                keep[i] = true;
                continue;
            }
            DeleteOption::After(_) => {
                keep[i] = false;
                continue;
            }
            DeleteOption::NotSet => {}
        }
        // an unmarked snapshot holding the same tree as the next older one goes, if asked for
        if o.delete_unchanged && order.get(pos + 1).is_some_and(|&j| snaps[j].tree == sn.tree) {
            keep[i] = false;
            continue;
        }
        let mut k = false;
        if let Some(idp) = o.keep_id {
            if sn.id.to_hex().starts_with(idp) {
                k = true;
            }
        }
        for t in [o.keep_tags, o.keep_tags2].into_iter().flatten() {
            let want: Vec<&str> = t.split(',').collect();
            let has = |x: &str| sn.tags.contains(x);
            if want.iter().all(|w| has(w)) {
                k = true;
            }
        }
        let is_oldest = pos + 1 == n;
        for r in 0..9 {
            // candidate: newest snapshot of its period (over all snapshots), or the oldest snapshot
            let candidate = if r == 0 {
                true
            } else {
                let key = period_key(r, &sn.time);
                let newest_of_period = order[..pos]
                    .iter()
                    .all(|&j| period_key(r, &snaps[j].time) != key);
                newest_of_period || is_oldest
            };
            if !candidate {
                continue;
            }
            if let Some(c) = &mut counters[r] {
                if *c != 0 {
                    k = true;
                    if *c > 0 {
                        *c -= 1;
                    }
                }
            }
            if let Some(w) = o.withins[r] {
                let span = Span::from_str(w).unwrap();
                if sn.time.saturating_add(span) > newest {
                    k = true;
                }
            }
        }
        keep[i] = k;
    }
    keep
}

fn run_case(snaps: &[Snap], z: usize, o: &Opts) -> Result<(), String> {
    let files: Vec<SnapshotFile> = snaps.iter().map(|s| mk_snapshot(s, z)).collect();
    let now = now();
    let expect = reference(&files, o, &now);
    let got = o
        .to_keep()
        .apply(files.clone(), &now)
        .map_err(|e| format!("apply returned Err: {}", e.display_log()))?;
    // compare as multiset of (time, id, keep): ties are fully identical snapshots
    let mut e: Vec<(Timestamp, String, bool)> = files
        .iter()
        .zip(&expect)
        .map(|(f, k)| (f.time.timestamp(), f.id.to_hex().to_string(), *k))
        .collect();
    let mut g: Vec<(Timestamp, String, bool)> = got
        .iter()
        .map(|f| (f.snapshot.time.timestamp(), f.snapshot.id.to_hex().to_string(), f.keep))
        .collect();
    e.sort();
    g.sort();
    if e != g {
        let fmt = |v: &[(Timestamp, String, bool)]| {
            v.iter()
                .map(|(t, _, k)| format!("{t}:{}", if *k { "keep" } else { "remove" }))
                .collect::<Vec<_>>()
                .join(", ")
        };
        return Err(format!("reference: [{}] implementation: [{}]", fmt(&e), fmt(&g)));
    }
    Ok(())
}

fn case_json(snaps: &[Snap], z: usize, o: &Opts) -> Value {
    json!({
        "zone": z,
        "snaps": snaps.iter().map(|s| json!({"inst": s.inst, "time": INSTANTS[s.inst], "tags": s.tags, "mark": s.mark, "id": s.id_byte, "tree": s.tree})).collect::<Vec<_>>(),
        "opts": o.to_json(),
    })
}

fn multisets(n: usize, k: usize, out: &mut Vec<Vec<usize>>) {
    // all non-decreasing sequences of length 1..=k over 0..n, shortest first
    fn rec(n: usize, len: usize, start: usize, cur: &mut Vec<usize>, out: &mut Vec<Vec<usize>>) {
        if cur.len() == len {
            out.push(cur.clone());
            return;
        }
        for i in start..n {
            cur.push(i);
            rec(n, len, i, cur, out);
            _ = cur.pop();
        }
    }
    for len in 1..=k {
        rec(n, len, 0, &mut Vec::new(), out);
    }
}

fn option_vectors(thorough: bool) -> Vec<Opts> {
    let mut v = Vec::new();
    let counts = [-1, 0, 1, 2, 3];
    for r in 0..9 {
        for c in counts {
            let mut o = Opts::default();
            o.counters[r] = Some(c);
            v.push(o);
        }
    }
    for r in 0..9 {
        for s in SPANS {
            let mut o = Opts::default();
            o.withins[r] = Some(s);
            v.push(o);
        }
    }
    v.push(Opts { keep_none: true, ..Default::default() });
    if thorough {
        // all pairs (counter, counter) with N in {1,2} and (counter, within)
        for r1 in 0..9 {
            for r2 in (r1 + 1)..9 {
                for c1 in [1, 2] {
                    for c2 in [1, 2] {
                        let mut o = Opts::default();
                        o.counters[r1] = Some(c1);
                        o.counters[r2] = Some(c2);
                        v.push(o);
                    }
                }
            }
            for r2 in 0..9 {
                for s in ["1h", "1d", "1mo"] {
                    let mut o = Opts::default();
                    o.counters[r1] = Some(1);
                    o.withins[r2] = Some(s);
                    v.push(o);
                }
            }
        }
    } else {
        for (r1, r2) in [(0, 3), (3, 4), (4, 5), (1, 2), (5, 8)] {
            let mut o = Opts::default();
            o.counters[r1] = Some(1);
            o.counters[r2] = Some(2);
            v.push(o);
        }
    }
    v
}

pub fn run(args: &Args, rep: &mut Report) {
    rep.set_meta("rule", json!("every sub-multiset (size<=k) of 16 boundary-dense instants x 3 zones x option vectors (each counter in {-1,0,1,2,3}, each within in 6 spans, pairs), plus tag/id/delete-mark slices and a delete-unchanged slice (two trees x four marks per snapshot); a grouping slice (every assignment of host/label/paths/tags to 3-4 snapshots x every criterion subset x input order); a case is non-trivial when the reference keeps some but not all snapshots; distinct = distinct (decision vector, option, multiset) triples"));
    if let Some(p) = &args.replay {
        let v: Value = serde_json::from_str(&std::fs::read_to_string(p).unwrap()).unwrap();
        let c = &v["case"];
        if c["slice"].as_str() == Some("grouping") {
            // the whole (cheap) slice is re-run
            let mut a2 = args.clone();
            a2.replay = None;
            a2.shard = 0;
            a2.nshards = 1;
            let mut i = 0usize;
            grouping_slice(rep, &a2, &mut i);
            return;
        }
        let snaps: Vec<Snap> = c["snaps"]
            .as_array()
            .unwrap()
            .iter()
            .map(|s| Snap {
                inst: s["inst"].as_u64().unwrap() as usize,
                tags: match s["tags"].as_str().unwrap_or("") {
                    "foo" => "foo",
                    "foo,bar" => "foo,bar",
                    "baz" => "baz",
                    _ => "",
                },
                mark: s["mark"].as_u64().unwrap_or(0) as u8,
                id_byte: s["id"].as_u64().unwrap_or(0) as u8,
                tree: s["tree"].as_u64().unwrap_or(0) as u8,
            })
            .collect();
        let o = Opts::from_json(&c["opts"]);
        let z = c["zone"].as_u64().unwrap_or(0) as usize;
        rep.inc("cases");
        if let Err(m) = run_case(&snaps, z, &o) {
            rep.violation(format!("C09/{}", o.sig()), m, c.clone());
        }
        return;
    }
    let k = if args.quick() { 4 } else { 5 };
    rep.set_meta("bounds", json!(format!("multiset size <= {k}, 16 instants, 3 zones")));
    let mut sets = Vec::new();
    multisets(INSTANTS.len(), k, &mut sets);
    let opts = option_vectors(!args.quick());
    let now = now();
    let mut idx = 0usize;
    // slice A: timestamps x options x zones, no tags/marks, ids distinct unless times are equal
    for set in &sets {
        idx += 1;
        if !args.mine(idx) {
            continue;
        }
        if idx % 64 == 0 && rep.over_budget() {
            return;
        }
        let snaps: Vec<Snap> = set
            .iter()
            .map(|&i| Snap { inst: i, tags: "", mark: 0, id_byte: i as u8, tree: i as u8 })
            .collect();
        for z in 0..3 {
            let files: Vec<SnapshotFile> = snaps.iter().map(|s| mk_snapshot(s, z)).collect();
            for o in &opts {
                rep.inc("cases");
                let expect = reference(&files, o, &now);
                let kept = expect.iter().filter(|x| **x).count();
                if kept > 0 && kept < expect.len() {
                    _ = rep.distinct("nontrivial", &(set, z, o.sig(), format!("{:?}{:?}", o.counters, o.withins), &expect));
                }
                if let Err(m) = run_case(&snaps, z, o) {
                    rep.violation(format!("C09/{}", o.sig()), m, case_json(&snaps, z, o));
                }
                // monotonicity: raising a counter never removes a kept snapshot
                for r in 0..9 {
                    if let Some(c) = o.counters[r] {
                        if c >= 0 && o.sig().matches('+').count() == 0 {
                            let mut o2 = o.clone();
                            o2.counters[r] = Some(c + 1);
                            let a = o.to_keep().apply(files.clone(), &now);
                            let b = o2.to_keep().apply(files.clone(), &now);
                            if let (Ok(a), Ok(b)) = (a, b) {
                                rep.inc("monotonicity_checks");
                                let ka: Vec<_> = a.iter().filter(|s| s.keep).map(|s| (s.snapshot.time.timestamp(), s.snapshot.id)).collect();
                                let kb: Vec<_> = b.iter().filter(|s| s.keep).map(|s| (s.snapshot.time.timestamp(), s.snapshot.id)).collect();
                                if !ka.iter().all(|x| kb.contains(x)) {
                                    rep.violation(
                                        format!("C09/monotonicity/{}", o.sig()),
                                        format!("keep({c}) kept {ka:?} but keep({}) kept {kb:?}", c + 1),
                                        case_json(&snaps, z, o),
                                    );
                                }
                            }
                        }
                    }
                }
            }
        }
        if rep.samples.is_empty() && set.len() == 3 {
            rep.sample(case_json(&snaps, 0, &opts[16]));
        }
    }
    // slice B: tags, ids and delete marks on multisets of size <= 3, combined with one counter rule
    let mut sets3 = Vec::new();
    multisets(INSTANTS.len(), 3, &mut sets3);
    let tag_choices = ["", "foo", "foo,bar", "baz"];
    let mut optsb = Vec::new();
    for kt in [None, Some("foo"), Some("foo,bar")] {
        for ki in [None, Some("aa"), Some("ff")] {
            for cnt in [None, Some((0usize, 1)), Some((3usize, 1))] {
                let mut o = Opts { keep_tags: kt, keep_id: ki, ..Default::default() };
                if let Some((r, c)) = cnt {
                    o.counters[r] = Some(c);
                }
                if o.sig().is_empty() {
                    o.keep_none = true;
                }
                optsb.push(o);
            }
        }
    }
    // two tag lists: kept if all tags of one of them are carried
    for (a, b) in [("foo", "baz"), ("foo,bar", "baz"), ("foo", "foo,bar")] {
        for cnt in [None, Some((0usize, 1))] {
            let mut o = Opts { keep_tags: Some(a), keep_tags2: Some(b), ..Default::default() };
            if let Some((r, c)) = cnt {
                o.counters[r] = Some(c);
            }
            optsb.push(o);
        }
    }
    for set in &sets3 {
        idx += 1;
        if !args.mine(idx) {
            continue;
        }
        // distinct instants only here (so that per-snapshot attributes cannot tie)
        if set.windows(2).any(|w| w[0] == w[1]) {
            continue;
        }
        let n = set.len();
        // attribute assignment: position p gets tag choice and mark from a mixed radix counter
        let combos = 16usize.pow(n as u32);
        for code in 0..combos {
            let mut c = code;
            let snaps: Vec<Snap> = set
                .iter()
                .enumerate()
                .map(|(p, &i)| {
                    let a = c % 16;
                    c /= 16;
                    Snap {
                        inst: i,
                        tags: tag_choices[a % 4],
                        mark: (a / 4) as u8,
                        id_byte: if p == 0 { 0xaa } else { 0x10 + p as u8 },
                        tree: p as u8,
                    }
                })
                .collect();
            // limit: quick tier uses a 1/4 subset of attribute codes (every tag and mark value
            // still occurs at every position)
            if args.quick() && n == 3 && (code % 4 != (code / 16) % 4) {
                continue;
            }
            let files: Vec<SnapshotFile> = snaps.iter().map(|s| mk_snapshot(s, 0)).collect();
            for o in &optsb {
                rep.inc("cases");
                rep.inc("cases_marks_tags_ids");
                let expect = reference(&files, o, &now);
                let kept = expect.iter().filter(|x| **x).count();
                if kept > 0 && kept < expect.len() {
                    _ = rep.distinct("nontrivial", &(set, code, o.sig(), &expect));
                }
                if let Err(m) = run_case(&snaps, 0, o) {
                    rep.violation(format!("C09/attrs/{}", o.sig()), m, case_json(&snaps, 0, o));
                }
            }
        }
    }
    // delete-unchanged: every assignment of {two trees} x {four marks} to <= 3 (quick) / 4 snapshots
    // at distinct instants, under delete_unchanged with a few rule vectors
    let mut optsu: Vec<Opts> = Vec::new();
    for (r, c) in [(0usize, 1i32), (0, -1), (3, 1), (8, 2)] {
        let mut o = Opts::default();
        o.counters[r] = Some(c);
        o.delete_unchanged = true;
        optsu.push(o);
    }
    {
        let mut o = Opts::default();
        o.keep_none = true;
        o.delete_unchanged = true;
        optsu.push(o);
    }
    let nmax = if args.quick() { 3 } else { 4 };
    for n in 1..=nmax {
        // instants: the n newest-first spread over days (indices chosen to be distinct)
        let insts: Vec<usize> = (0..n).map(|p| p * (INSTANTS.len() - 1) / nmax).collect();
        for code in 0..8usize.pow(n as u32) {
            idx += 1;
            if !args.mine(idx) {
                continue;
            }
            let mut c = code;
            let snaps: Vec<Snap> = insts
                .iter()
                .enumerate()
                .map(|(p, &i)| {
                    let a = c % 8;
                    c /= 8;
                    Snap { inst: i, tags: "", mark: (a / 2) as u8, id_byte: 0x20 + p as u8, tree: (a % 2) as u8 }
                })
                .collect();
            let files: Vec<SnapshotFile> = snaps.iter().map(|s| mk_snapshot(s, 0)).collect();
            for o in &optsu {
                rep.inc("cases");
                rep.inc("cases_delete_unchanged");
                let expect = reference(&files, o, &now);
                let kept = expect.iter().filter(|x| **x).count();
                if kept > 0 && kept < expect.len() {
                    _ = rep.distinct("nontrivial", &(&insts, code, o.sig(), &expect, "unchanged"));
                }
                if let Err(m) = run_case(&snaps, 0, o) {
                    let sig = format!("C09/delete-unchanged/{}", o.sig());
                    if !rep.has_violation(&sig) {
                        rep.violation(sig, m, case_json(&snaps, 0, o));
                    }
                }
            }
        }
    }    grouping_slice(rep, args, &mut idx);
}

/// Grouping: the keep rules are evaluated per group of snapshots agreeing in the selected criteria.
/// Every assignment of (host, label, paths, tags) from small alphabets to 3 (thorough: 4 with a
/// reduced alphabet) snapshots at distinct instants x every subset of the four criteria x both
/// input orders, under keep-last 1: the kept set must be the newest snapshot of every true group.
fn grouping_slice(rep: &mut Report, args: &Args, idx: &mut usize) {
    use rustic_core::{ForgetGroups, Grouped, SnapshotGroupCriterion};
    let now = now();
    let hosts = ["h1", "h2"];
    let labels = ["", "l"];
    let paths = ["/p1", "/p2"];
    let tags = ["", "db", "www"];
    let attr = |code: usize| -> (usize, usize, usize, usize) { (code % 2, code / 2 % 2, code / 4 % 2, code / 8 % 3) };
    let n_attr = 24usize;
    let mut keep = KeepOptions::default();
    keep.keep_last = Some(1);
    let ns: &[usize] = if args.quick() { &[3] } else { &[3, 4] };
    for &n in ns {
        let combos = if n == 3 { n_attr.pow(3) } else { 6usize.pow(4) };
        for code in 0..combos {
            *idx += 1;
            if !args.mine(*idx) {
                continue;
            }
            let mut c = code;
            let mut files: Vec<SnapshotFile> = Vec::new();
            let mut attrs: Vec<(usize, usize, usize, usize)> = Vec::new();
            for p in 0..n {
                let a = if n == 3 {
                    let a = attr(c % n_attr);
                    c /= n_attr;
                    a
                } else {
                    // reduced alphabet: host x tags only
                    let k = c % 6;
                    c /= 6;
                    (k % 2, 0, 0, k / 2)
                };
                let mut sn = SnapshotFile::default();
                sn.time = instant(p * (INSTANTS.len() - 1) / 4).to_zoned(zone(0));
                sn.id = format!("{:02x}", 0x40 + p).repeat(32).parse().unwrap();
                sn.hostname = hosts[a.0].to_string();
                sn.label = labels[a.1].to_string();
                sn.paths = StringList::from_str(paths[a.2]).unwrap();
                if !tags[a.3].is_empty() {
                    sn.tags = StringList::from_str(tags[a.3]).unwrap();
                }
                files.push(sn);
                attrs.push(a);
            }
            for crit_bits in 0..16usize {
                let mut crit = SnapshotGroupCriterion::new();
                crit.hostname = crit_bits & 1 != 0;
                crit.label = crit_bits & 2 != 0;
                crit.paths = crit_bits & 4 != 0;
                crit.tags = crit_bits & 8 != 0;
                // reference: newest snapshot of every group of equal selected attributes
                let key = |a: &(usize, usize, usize, usize)| (if crit.hostname { a.0 } else { 9 }, if crit.label { a.1 } else { 9 }, if crit.paths { a.2 } else { 9 }, if crit.tags { a.3 } else { 9 });
                let mut expect: Vec<bool> = vec![false; n];
                for p in 0..n {
                    expect[p] = !(p + 1..n).any(|q| key(&attrs[q]) == key(&attrs[p]));
                }
                for reversed in [false, true] {
                    rep.inc("cases");
                    rep.inc("cases_grouping");
                    let mut input = files.clone();
                    if reversed {
                        input.reverse();
                    }
                    let groups = Grouped::from_items(input, crit);
                    let ngroups = groups.groups.len();
                    let got = match ForgetGroups::from_grouped_snapshots_with_retention(groups, &keep, &now) {
                        Ok(g) => g,
                        Err(e) => {
                            rep.violation("C09/grouping/error".to_string(), e.display_log(), json!({"slice": "grouping", "n": n, "code": code, "criterion": crit_bits, "reversed": reversed}));
                            continue;
                        }
                    };
                    let mut keptv = vec![false; n];
                    for g in &got.0 {
                        for fs in &g.items {
                            let p = files.iter().position(|f| f.id == fs.snapshot.id).unwrap();
                            keptv[p] = fs.keep;
                        }
                    }
                    let true_groups = { let mut k: Vec<_> = attrs.iter().map(key).collect(); k.sort_unstable(); k.dedup(); k.len() };
                    if true_groups > 1 && true_groups < n {
                        _ = rep.distinct("nontrivial", &("grouping", n, code, crit_bits));
                    }
                    if keptv != expect || ngroups != true_groups {
                        let sig = "C09/grouping".to_string();
                        if !rep.has_violation(&sig) {
                            rep.violation(
                                sig,
                                format!("attributes (host,label,paths,tags) {attrs:?} oldest first, criterion bits {crit_bits:04b}, reversed input {reversed}: {ngroups} groups (expected {true_groups}), kept {keptv:?}, expected {expect:?}"),
                                json!({"slice": "grouping", "n": n, "code": code, "criterion": crit_bits, "reversed": reversed}),
                            );
                        }
                    }
                }
            }
        }
    }
}
