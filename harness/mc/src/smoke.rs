use rustic_core::BackupOptions;
use vkit::{
    decode::{canon_store, independent_read},
    logical::{diff, model_tree},
    rep::{Env, backup, check_errors, read_all, tiny_config},
    report::{Args, Report},
    source::{Entry, MemSource},
};

pub fn run(_args: &Args, rep: &mut Report) {
    let env = Env::single();
    let _ = env.init_with(tiny_config(2)).expect("init");
    let mut t = Entry::dir(1_600_000_000);
    t.insert("a/f1", Entry::file(vec![7u8; 1000], 1_600_000_001));
    t.insert("a/f2", Entry::file((0..5000u32).map(|i| (i * 31 % 251) as u8).collect::<Vec<u8>>(), 1_600_000_002));
    t.insert("b/l", Entry::symlink(b"../a/f1".to_vec(), 1_600_000_003));
    t.insert("e", Entry::dir(1_600_000_004));
    let src = MemSource::new("r", t.clone());
    let t0 = std::time::Instant::now();
    let snap = backup(&env, &src, "s1", 1_700_000_000, &vkit::rep::bopts()).expect("backup");
    println!("backup took {:?} tree {}", t0.elapsed(), snap.tree);
    let model = model_tree("r", &t);
    let t0 = std::time::Instant::now();
    let all = read_all(&env).expect("read_all");
    println!("read_all took {:?}", t0.elapsed());
    println!("diff api: {:?}", diff(&model, &all["s1"]));
    let ind = independent_read(&env.raw, &env.store()).expect("independent");
    println!("diff independent: {:?}", diff(&model, &ind["s1"]));
    let t0 = std::time::Instant::now();
    println!("check: {:?} in {:?}", check_errors(&env, true), t0.elapsed());
    for l in canon_store(&env.raw, &env.store()) {
        println!("  {l}");
    }
    let w = env.world.lock().unwrap();
    println!("ops: {}", w.log.len());
    rep.inc("smoke");
}
