//! C11 — incremental backup with a parent equals a full backup.
//! SEQ/differential: (base source, edit script, parent options, parent damage) -> the tree written
//! by the parent-based backup must equal the tree written by a forced full backup of the same
//! source whenever the statement's precondition holds.

use std::collections::{BTreeMap, BTreeSet};

use rustic_core::{BackupOptions, FileType, ParentOptions, RepairIndexOptions};
use serde::{Deserialize, Serialize};
use serde_json::{Value, json};
use vkit::{
    backend::Store,
    decode::{RawKey, independent_read, pack_header, sha256_hex},
    logical::{diff, model_tree},
    rep::{Env, backup_with, master_key, tiny_config},
    report::{Args, Report},
    source::{Ent, Entry, MemSource},
};

use crate::{c02::T0, c13::lcg};

#[derive(Clone, Debug, Serialize, Deserialize, PartialEq, Eq)]
pub enum Edit {
    None,
    ContentAndSize,
    ContentMtime,
    ContentCtime,
    /// content changed, nothing else: the statement's precondition does not hold
    ContentOnly,
    Touch,
    Rename,
    FileToDir,
    DirToFile,
    FileToSymlink,
    Add,
    Remove,
    InsertBetween,
    ChangeInode,
}

const EDITS: [Edit; 14] = [
    Edit::None,
    Edit::ContentAndSize,
    Edit::ContentMtime,
    Edit::ContentCtime,
    Edit::ContentOnly,
    Edit::Touch,
    Edit::Rename,
    Edit::FileToDir,
    Edit::DirToFile,
    Edit::FileToSymlink,
    Edit::Add,
    Edit::Remove,
    Edit::InsertBetween,
    Edit::ChangeInode,
];

#[derive(Clone, Debug, Serialize, Deserialize, PartialEq, Eq)]
pub enum Popt {
    Default,
    Explicit,
    TwoParents,
    IgnoreCtime,
    IgnoreInode,
    SkipIfUnchanged,
    Force,
}

const POPTS: [Popt; 7] = [
    Popt::Default,
    Popt::Explicit,
    Popt::TwoParents,
    Popt::IgnoreCtime,
    Popt::IgnoreInode,
    Popt::SkipIfUnchanged,
    Popt::Force,
];

fn base(i: usize) -> Entry {
    let mut t = Entry::dir(T0);
    let f = |seed: u64, n: usize, inode: u64| {
        let mut e = Entry::file(lcg(seed, n), T0 + 5);
        e.meta.inode = inode;
        e
    };
    match i {
        0 => {
            t.insert("a", f(1, 300, 11));
            t.insert("c", f(2, 150, 12));
            t.insert("d/x", f(3, 200, 13));
            t.insert("d/z", f(4, 90, 14));
            t.insert("e", Entry::dir(T0 + 5));
        }
        1 => {
            t.insert("a", f(5, 0, 21));
            t.insert("c", f(6, 1, 22));
            t.insert("d/x", f(7, 700, 23));
            t.insert("l", Entry::symlink(b"a".to_vec(), T0 + 5));
        }
        _ => {
            for k in 0..6u64 {
                t.insert(&format!("d/f{k}"), f(30 + k, 100 + k as usize, 30 + k));
            }
            t.insert("a", f(40, 260, 41));
            t.insert("c", f(41, 64, 42));
        }
    }
    t
}

/// apply an edit; returns whether the statement's precondition still holds for this edit
fn apply(t: &mut Entry, e: &Edit, step: i64, ignore_ctime: bool) -> bool {
    let ns = |s: i64| Some(i128::from(s) * 1_000_000_000);
    let mt = T0 + 100 + step;
    let file_a = t.get("a").cloned();
    match e {
        Edit::None => true,
        Edit::ContentAndSize => {
            if let Some(mut f) = file_a {
                if let Ent::File(d) = &f.ent {
                    let mut v = d.to_vec();
                    v.extend_from_slice(b"more");
                    f.ent = Ent::File(v.into());
                }
                t.insert("a", f);
            }
            true
        }
        Edit::ContentMtime | Edit::ContentCtime | Edit::ContentOnly => {
            let mut pre = true;
            if let Some(mut f) = file_a {
                if let Ent::File(d) = &f.ent {
                    let mut v = d.to_vec();
                    if v.is_empty() {
                        return true;
                    }
                    let n = v.len();
                    v[n / 2] = v[n / 2].wrapping_add(1 + step as u8);
                    f.ent = Ent::File(v.into());
                    match e {
                        Edit::ContentMtime => f.meta.mtime = ns(mt),
                        Edit::ContentCtime => {
                            f.meta.ctime = ns(mt);
                            pre = !ignore_ctime;
                        }
                        _ => pre = false,
                    }
                }
                t.insert("a", f);
            }
            pre
        }
        Edit::Touch => {
            if let Some(mut f) = t.get("c").cloned() {
                f.meta.mtime = ns(mt);
                f.meta.ctime = ns(mt);
                t.insert("c", f);
            }
            true
        }
        Edit::Rename => {
            if let Some(f) = t.remove("c") {
                t.insert(&format!("c{step}"), f);
            }
            true
        }
        Edit::FileToDir => {
            if t.get("a").is_some_and(|x| matches!(x.ent, Ent::File(_))) {
                _ = t.remove("a");
                t.insert("a/inner", Entry::file(lcg(90 + step as u64, 80), mt));
            }
            true
        }
        Edit::DirToFile => {
            if t.get("d").is_some_and(|x| matches!(x.ent, Ent::Dir(_))) {
                _ = t.remove("d");
                t.insert("d", Entry::file(lcg(91 + step as u64, 120), mt));
            }
            true
        }
        Edit::FileToSymlink => {
            if t.get("c").is_some_and(|x| matches!(x.ent, Ent::File(_))) {
                _ = t.remove("c");
                t.insert("c", Entry::symlink(b"a".to_vec(), mt));
            }
            true
        }
        Edit::Add => {
            t.insert(&format!("zz{step}"), Entry::file(lcg(92 + step as u64, 70), mt));
            true
        }
        Edit::Remove => {
            _ = t.remove("d/x");
            true
        }
        Edit::InsertBetween => {
            // sorts between "a" and "c" / inside d between existing names
            t.insert(&format!("b{step}"), Entry::file(lcg(93 + step as u64, 75), mt));
            if t.get("d").is_some_and(|x| matches!(x.ent, Ent::Dir(_))) {
                t.insert(&format!("d/y{step}"), Entry::file(lcg(94 + step as u64, 66), mt));
            }
            true
        }
        Edit::ChangeInode => {
            if let Some(mut f) = file_a {
                f.meta.inode += 1000;
                t.insert("a", f);
            }
            true
        }
    }
}

fn popts(p: &Popt, parents: &[String]) -> BackupOptions {
    let mut po = vkit::rep::popts();
    match p {
        Popt::Default => {}
        Popt::Explicit => po.parents = vec![parents.last().cloned().unwrap_or_default()],
        Popt::TwoParents => po.parents = parents.iter().rev().take(2).cloned().collect(),
        Popt::IgnoreCtime => po.ignore_ctime = true,
        Popt::IgnoreInode => po.ignore_inode = true,
        Popt::SkipIfUnchanged => po.skip_if_unchanged = true,
        Popt::Force => po.force = true,
    }
    vkit::rep::bopts().parent_opts(po)
}

#[derive(Clone, Debug, Serialize, Deserialize)]
struct Case {
    base: usize,
    edits: Vec<Edit>,
    popt: Popt,
    damage: bool,
    /// instead of a data pack, every pack holding tree blobs is lost (the parent cannot be loaded)
    #[serde(default)]
    tree_damage: bool,
}

fn expected_counts(parent: &Entry, cur: &Entry, ignore_ctime: bool) -> (u64, u64, u64) {
    // (new, changed, unmodified) for non-directory entries as the statement describes them
    let (mut new, mut changed, mut unmod) = (0, 0, 0);
    let mut all = Vec::new();
    cur.walk(b"", &mut all);
    for (p, e) in all {
        if matches!(e.ent, Ent::Dir(_)) {
            continue;
        }
        let path = String::from_utf8_lossy(&p).to_string();
        match parent.get(&path) {
            None => new += 1,
            Some(pe) => {
                let same_type = std::mem::discriminant(&pe.ent) == std::mem::discriminant(&e.ent)
                    && match (&pe.ent, &e.ent) {
                        (Ent::Symlink(a), Ent::Symlink(b)) => a == b,
                        _ => true,
                    };
                let size = |x: &Entry| if let Ent::File(d) = &x.ent { d.len() } else { 0 };
                if same_type && size(pe) == size(&e) && pe.meta.mtime == e.meta.mtime && (ignore_ctime || pe.meta.ctime == e.meta.ctime) {
                    unmod += 1;
                } else {
                    changed += 1;
                }
            }
        }
    }
    (new, changed, unmod)
}

fn run_case(raw: &RawKey, c: &Case, rep: &mut Report) -> Result<(), (String, String)> {
    let es = |what: &str, e: Box<rustic_core::RusticError>| (format!("C11/{what}/error"), e.display_log());
    let env = Env::single();
    let mut cfg = tiny_config(2);
    cfg.datapack_size = Some(10);
    cfg.datapack_growfactor = Some(0);
    _ = env.init_with(cfg).map_err(|e| es("init", e))?;
    // parent snapshots: the base, and (all but the last edit) applied = second parent
    let mut tree = base(c.base);
    let mut parents: Vec<(String, Entry)> = Vec::new();
    let mut pre = true;
    let ignore_ctime = c.popt == Popt::IgnoreCtime;
    let mut ids = Vec::new();
    let mut last_parent_tree = None;
    let nedits = c.edits.len();
    for i in 0..nedits {
        let repo = env.open_ids().map_err(|e| es("open", e))?;
        let snap = backup_with(&repo, &MemSource::new("r", tree.clone()), &format!("p{i}"), T0 + 1000 + i as i64, &vkit::rep::bopts().parent_opts(vkit::rep::popts().force(true)))
            .map_err(|e| es("parent-backup", e))?;
        ids.push(snap.id.to_hex().to_string());
        last_parent_tree = Some(snap.tree);
        parents.push((format!("p{i}"), tree.clone()));
        rep.inc("transitions");
        // precondition is judged relative to every parent that may be consulted
        pre &= apply(&mut tree, &c.edits[i], i as i64, ignore_ctime);
    }
    // with two parents only the edits after the older of the two matter; conservatively all
    if c.damage && c.tree_damage {
        let mut st = env.store();
        for (pid, _) in st.list(FileType::Pack) {
            if pack_header(raw, st.get(FileType::Pack, &pid).unwrap()).is_ok_and(|h| h.iter().any(|b| b.tpe == 1)) {
                _ = st.del(FileType::Pack, &pid);
            }
        }
        env.set_store(st);
        env.open().map_err(|e| es("open", e))?.repair_index(&RepairIndexOptions::default(), false).map_err(|e| es("repair-index", e))?;
        rep.inc("damaged_parent_cases");
        rep.inc("parent_trees_lost_cases");
    } else if c.damage {
        // lose the data pack holding the first chunk of an unchanged file, then repair the index
        let mut st = env.store();
        let victim_chunk = match tree.get("d/x").or_else(|| tree.get("c")).map(|e| &e.ent) {
            Some(Ent::File(d)) if !d.is_empty() => Some(sha256_hex(&d[..d.len().min(64)])),
            _ => None,
        };
        let mut removed = false;
        for (pid, _) in st.list(FileType::Pack) {
            let h = pack_header(raw, st.get(FileType::Pack, &pid).unwrap()).unwrap_or_default();
            if h.iter().any(|b| b.tpe == 0) && (victim_chunk.is_none() || h.iter().any(|b| Some(&b.id) == victim_chunk.as_ref()) || !removed && h.len() == 1) {
                if h.iter().any(|b| Some(&b.id) == victim_chunk.as_ref()) || victim_chunk.is_none() {
                    _ = st.del(FileType::Pack, &pid);
                    removed = true;
                    break;
                }
            }
        }
        if !removed {
            // fall back: remove the first data pack
            if let Some((pid, _)) = st.list(FileType::Pack).into_iter().find(|(pid, _)| pack_header(raw, st.get(FileType::Pack, pid).unwrap()).is_ok_and(|h| h.iter().all(|b| b.tpe == 0))) {
                _ = st.del(FileType::Pack, &pid);
            }
        }
        env.set_store(st);
        env.open().map_err(|e| es("open", e))?.repair_index(&RepairIndexOptions::default(), false).map_err(|e| es("repair-index", e))?;
        rep.inc("damaged_parent_cases");
    }
    let before: Store = env.store();
    // (A) parent-based backup
    let opts = popts(&c.popt, &ids);
    let repo = env.open_ids().map_err(|e| es("open", e))?;
    let snap_a = backup_with(&repo, &MemSource::new("r", tree.clone()), "cur", T0 + 2000, &opts).map_err(|e| es("backup", e))?;
    rep.inc("transitions");
    let after_a = env.store();
    // (B) forced full backup of the same source on a clone of the repository
    let env_b = env.fork(before.clone());
    let repo_b = env_b.open_ids().map_err(|e| es("open", e))?;
    let snap_b = backup_with(&repo_b, &MemSource::new("r", tree.clone()), "cur", T0 + 2000, &vkit::rep::bopts().parent_opts(vkit::rep::popts().force(true)))
        .map_err(|e| es("forced-backup", e))?;
    rep.inc("transitions");
    if !pre {
        rep.inc("precondition_false_not_judged");
        if snap_a.tree != snap_b.tree {
            rep.inc("precondition_false_trees_differ");
        }
        return Ok(());
    }
    rep.inc("judged_cases");
    _ = rep.distinct("state", &(c.base, format!("{:?}{:?}", c.edits, c.popt), c.damage, snap_a.tree.to_hex().to_string()));
    if snap_a.tree != snap_b.tree {
        return Err((format!("C11/tree-differs/{:?}", c.popt), format!("parent-based tree {} != full-read tree {}", snap_a.tree, snap_b.tree)));
    }
    // every pack the parent-based backup wrote is listed by an index file (also when the snapshot
    // itself is skipped as unchanged: files that had to be read again were stored for a reason)
    {
        let listed: std::collections::BTreeSet<String> = vkit::decode::index_packs(raw, &after_a).map_err(|e| ("C11/index/decode".to_string(), e))?.into_iter().map(|p| p.pack_id).collect();
        for (id, _) in after_a.list(FileType::Pack) {
            if before.get(FileType::Pack, &id).is_none() && !listed.contains(&vkit::decode::hex_id(&id)) {
                return Err(("C11/new-pack-not-indexed".into(), format!("the backup wrote pack {} but no index file lists it", &vkit::decode::hex_id(&id)[..8])));
            }
        }
    }
    // the new snapshot reads back to the source (also with a damaged parent: files are re-read)
    let skipped = snap_a.id.is_null();
    // "unchanged" means the same tree id as the (first) parent, metadata such as inodes included
    let parent_tree_equal = last_parent_tree == Some(snap_b.tree);
    if c.popt == Popt::SkipIfUnchanged {
        let new_snapshot_written = after_a.list(FileType::Snapshot).len() > before.list(FileType::Snapshot).len();
        if new_snapshot_written == parent_tree_equal && !c.damage {
            return Err(("C11/skip-if-unchanged".into(), format!("snapshot written: {new_snapshot_written}, tree equal to parent: {parent_tree_equal}")));
        }
        if !new_snapshot_written {
            rep.inc("skipped_snapshots");
        }
    } else if skipped {
        return Err(("C11/snapshot-not-saved".into(), "no snapshot was written although skip-if-unchanged is off".into()));
    }
    if !skipped {
        let got = independent_read(raw, &after_a);
        match got {
            Ok(m) => {
                if let Some(d) = m.get("cur").map_or(Some("snapshot cur missing".to_string()), |g| diff(&model_tree("r", &tree), g)) {
                    return Err(("C11/read-back".into(), d));
                }
            }
            // the damaged parent itself stays unreadable; only the new snapshot is judged
            Err(e) if c.damage => {
                let env_c = env.fork(after_a.clone());
                let repo = env_c.open_full().map_err(|e| es("open", e))?;
                let snaps = repo.get_all_snapshots().map_err(|e| es("snapshots", e))?;
                let cur = snaps.iter().find(|s| s.label == "cur").ok_or_else(|| ("C11/read-back".to_string(), "cur missing".to_string()))?;
                let t = vkit::logical::read_snapshot(&repo, cur).map_err(|e2| ("C11/damaged-parent/new-snapshot-unreadable".to_string(), format!("{e2} (independent: {e})")))?;
                if let Some(d) = diff(&model_tree("r", &tree), &t) {
                    return Err(("C11/damaged-parent/read-back".into(), d));
                }
            }
            Err(e) => return Err(("C11/read-back".into(), e)),
        }
    }
    // summary counters for the single-parent cases
    if matches!(c.popt, Popt::Default | Popt::Explicit | Popt::IgnoreCtime) && !c.damage {
        if let (Some(sum), Some((_, parent))) = (&snap_a.summary, parents.last()) {
            let (n, ch, u) = expected_counts(parent, &tree, ignore_ctime);
            if (sum.files_new, sum.files_changed, sum.files_unmodified) != (n, ch, u) {
                return Err(("C11/summary".into(), format!("summary new/changed/unmodified = {}/{}/{}, expected {n}/{ch}/{u}", sum.files_new, sum.files_changed, sum.files_unmodified)));
            }
        }
    }
    if c.popt == Popt::Force {
        if let Some(sum) = &snap_a.summary {
            if sum.files_unmodified != 0 {
                return Err(("C11/force".into(), "force reported unmodified files".into()));
            }
        }
    }
    Ok(())
}

pub fn run(args: &Args, rep: &mut Report) {
    let raw = RawKey::from_master(&master_key());
    if let Some(p) = &args.replay {
        let v: Value = serde_json::from_str(&std::fs::read_to_string(p).unwrap()).unwrap();
        let c: Case = serde_json::from_value(v["case"].clone()).unwrap();
        rep.inc("executions");
        if let Err((sig, msg)) = run_case(&raw, &c, rep) {
            rep.violation(sig, msg, v["case"].clone());
        }
        return;
    }
    let quick = args.quick();
    rep.set_meta("bounds", json!(format!("3 base sources x edit scripts of length 1{} over 14 edits x 7 parent option sets x parent damage {{none, one data pack lost + repair-index, all tree packs lost + repair-index}}", if quick { " and 2 (second edit from a 6-edit subset)" } else { " and 2" })));
    let mut idx = 0usize;
    let mut seen: BTreeSet<String> = BTreeSet::new();
    let second: Vec<Edit> = if quick {
        vec![Edit::None, Edit::ContentMtime, Edit::Rename, Edit::FileToDir, Edit::Remove, Edit::InsertBetween]
    } else {
        EDITS.to_vec()
    };
    for b in 0..3 {
        let mut scripts: Vec<Vec<Edit>> = EDITS.iter().map(|e| vec![e.clone()]).collect();
        for e1 in &EDITS {
            for e2 in &second {
                scripts.push(vec![e1.clone(), e2.clone()]);
            }
        }
        for edits in scripts {
            idx += 1;
            if !args.mine(idx) {
                continue;
            }
            if rep.over_budget() {
                return;
            }
            for p in &POPTS {
                for (damage, tree_damage) in [(false, false), (true, false), (true, true)] {
                    if damage && edits.len() > 1 && quick {
                        continue;
                    }
                    // the parent's trees are lost only in single-edit scripts
                    if tree_damage && edits.len() > 1 {
                        continue;
                    }
                    let c = Case { base: b, edits: edits.clone(), popt: p.clone(), damage, tree_damage };
                    rep.inc("executions");
                    if rep.samples.len() < 3 && edits.len() == 2 && damage == false {
                        rep.sample(serde_json::to_value(&c).unwrap());
                    }
                    _ = seen.insert(format!("{c:?}"));
                    if let Err((sig, msg)) = run_case(&raw, &c, rep) {
                        if !rep.has_violation(&sig) {
                            // reproducibility
                            match run_case(&raw, &c, &mut Report::default()) {
                                Err((s2, _)) if s2 == sig => rep.violation(sig, msg, serde_json::to_value(&c).unwrap()),
                                _ => rep.machinery(format!("flaky violation {sig} for {c:?}")),
                            }
                        } else {
                            rep.inc("violations_raw");
                        }
                    }
                }
            }
        }
    }
    _ = BTreeMap::<u8, u8>::new();
}
