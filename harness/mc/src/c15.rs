//! C15 — append-only and dry-run modes never remove or overwrite stored data.
//! SEQ with a recording store: sequences of all public mutating operations on an append-only
//! repository; every command x dry-run flag on a normal repository.

use bytesize::ByteSize;
use rustic_core::{
    ConfigOptions, FileType, KeyOptions, RepairIndexOptions, RepairSnapshotsOptions,
    RewriteOptions, RewriteTreesOptions, SnapshotOptions, last_modified_node,
};
use serde::{Deserialize, Serialize};
use serde_json::json;
use vkit::{
    backend::Store,
    decode::{RawKey, canon_store},
    rep::{Env, backup_with, bopts, master_key, tiny_config},
    report::{Args, Report},
    seq::{SeqModel, Viol, bfs},
    source::MemSource,
};

use crate::c02::{N_PRUNE_ALL, N_PRUNE_QUICK, T0, prune_opts, source};

#[derive(Clone, Debug, Serialize, Deserialize, PartialEq, Eq)]
pub enum Act {
    Backup { dry: bool },
    Forget,
    PrunePlan(usize),
    Prune(usize),
    RepairIndex { read_all: bool, dry: bool },
    RepairSnapshots { delete: bool, dry: bool },
    Rewrite { forget: bool, trees: bool, dry: bool },
    SaveSnapshots,
    Merge,
    CopyInto,
    ApplyConfig(usize),
    SetAppendOnly(bool),
    AddKey,
    DeleteKey,
    /// environment: lose one data pack (so that repair has something to do)
    LosePack,
    /// environment: a pack file no index lists appears (left by an interrupted or still running backup)
    PlantUnindexedPack,
}

#[derive(Clone)]
pub struct St {
    store: Store,
    append_only: bool,
    n: usize,
    keys_added: usize,
    damaged: bool,
    orphan: bool,
}

pub struct C15 {
    raw: RawKey,
    n_prune: usize,
}

fn config_variants(i: usize) -> ConfigOptions {
    match i {
        0 => ConfigOptions::default().set_compression(5),
        1 => ConfigOptions::default().set_treepack_size(ByteSize(2000)),
        2 => ConfigOptions::default().set_datapack_size(ByteSize(3000)),
        3 => ConfigOptions::default().set_version(2u32),
        4 => ConfigOptions::default().set_extra_verify(false),
        5 => ConfigOptions::default().set_min_packsize_tolerate_percent(10u32),
        _ => ConfigOptions::default().set_chunk_max_size(ByteSize(512)),
    }
}
const N_CONFIG: usize = 7;

fn protected(store: &Store) -> Vec<(FileType, rustic_core::Id, bytes::Bytes)> {
    store
        .files
        .iter()
        .filter(|(t, _, _)| matches!(t, FileType::Snapshot | FileType::Index | FileType::Pack))
        .cloned()
        .collect()
}

fn base(append_only: bool) -> St {
    let env = Env::single();
    let mut cfg = tiny_config(2);
    cfg.datapack_size = Some(600);
    cfg.datapack_growfactor = Some(0);
    cfg.treepack_size = Some(500);
    cfg.treepack_growfactor = Some(0);
    _ = env.init_with(cfg).expect("init");
    for v in 0..3 {
        let repo = env.open_ids().expect("open");
        _ = backup_with(&repo, &MemSource::new("r", source(v)), &format!("s{v}"), T0 + 1000 + v as i64, &bopts()).expect("backup");
    }
    // forget one snapshot so that prune would have work
    let repo = env.open().expect("open");
    let ids: Vec<_> = repo.get_all_snapshots().unwrap().iter().filter(|s| s.label == "s0").map(|s| s.id).collect();
    repo.delete_snapshots(&ids).expect("forget");
    if append_only {
        let mut repo = env.open().expect("open");
        _ = repo.apply_config(&ConfigOptions::default().set_append_only(true)).expect("set append-only");
    }
    St { store: env.store(), append_only, n: 3, keys_added: 0, damaged: false, orphan: false }
}

impl SeqModel for C15 {
    type State = St;
    type Action = Act;

    fn initial(&self) -> Vec<(String, St)> {
        let mut v = vec![("append-only".to_string(), base(true)), ("normal".to_string(), base(false))];
        // an append-only repository whose snapshots are damaged in a way `repair snapshots` can see:
        // a data pack was lost and the index repaired *before* the repository was made append-only
        // (on an append-only repository repair-index is refused, so the search cannot get there)
        let mut s = base(false);
        let mut scratch = Report::default();
        for a in [Act::LosePack, Act::RepairIndex { read_all: false, dry: false }, Act::SetAppendOnly(true)] {
            s = self.step(&s, &a, &mut scratch).expect("building the damaged append-only state");
        }
        v.push(("append-only-damaged".to_string(), s));
        v
    }

    fn actions(&self, s: &St) -> Vec<Act> {
        let mut v = Vec::new();
        for dry in [false, true] {
            v.push(Act::Backup { dry });
        }
        v.push(Act::Forget);
        for i in 0..self.n_prune {
            v.push(Act::PrunePlan(i));
            if s.append_only || i < 2 {
                v.push(Act::Prune(i));
            }
        }
        for read_all in [false, true] {
            for dry in [false, true] {
                v.push(Act::RepairIndex { read_all, dry });
            }
        }
        for delete in [false, true] {
            for dry in [false, true] {
                v.push(Act::RepairSnapshots { delete, dry });
            }
        }
        for forget in [false, true] {
            for trees in [false, true] {
                for dry in [false, true] {
                    v.push(Act::Rewrite { forget, trees, dry });
                }
            }
        }
        v.push(Act::SaveSnapshots);
        v.push(Act::Merge);
        v.push(Act::CopyInto);
        for i in 0..N_CONFIG {
            v.push(Act::ApplyConfig(i));
        }
        v.push(Act::SetAppendOnly(!s.append_only));
        v.push(Act::SetAppendOnly(s.append_only));
        if s.keys_added < 1 {
            v.push(Act::AddKey);
        }
        v.push(Act::DeleteKey);
        if !s.damaged {
            v.push(Act::LosePack);
        }
        if !s.orphan {
            v.push(Act::PlantUnindexedPack);
        }
        v
    }

    fn action_class(&self, a: &Act) -> String {
        let s = format!("{a:?}");
        let name = s.split([' ', '(', '{']).next().unwrap().to_string();
        let dry = s.contains("dry: true") || matches!(a, Act::PrunePlan(_));
        format!("{name}{}", if dry { "/dry" } else { "" })
    }

    fn canon(&self, s: &St) -> String {
        let mut c = canon_store(&self.raw, &s.store);
        c.push(format!("ao={} n={} keys={} damaged={} orphan={}", s.append_only, s.n.min(4), s.keys_added, s.damaged, s.orphan));
        c.join("\n")
    }

    fn invariant(&self, _s: &St, _rep: &mut Report) -> Result<(), Viol> {
        Ok(())
    }

    fn step(&self, s: &St, a: &Act, rep: &mut Report) -> Result<St, Viol> {
        let env = Env::from_store(s.store.clone());
        let mut n = s.clone();
        let before = protected(&s.store);
        let class = self.action_class(a);
        let is_dry = class.ends_with("/dry");
        if matches!(a, Act::PlantUnindexedPack) {
            let (pack, _) = vkit::decode::build_pack(&self.raw, &[(0, b"blob of a pack which no index lists".to_vec())], 4243);
            n.store.put(FileType::Pack, &vkit::decode::id_of(&pack), pack.into());
            n.orphan = true;
            return Ok(n);
        }
        if matches!(a, Act::LosePack) {
            // environment step, not a library operation
            if let Some((id, _)) = s.store.list(FileType::Pack).into_iter().find(|(id, _)| {
                vkit::decode::pack_header(&self.raw, s.store.get(FileType::Pack, id).unwrap()).is_ok_and(|h| h.iter().all(|b| b.tpe == 0))
            }) {
                _ = n.store.del(FileType::Pack, &id);
            }
            n.damaged = true;
            return Ok(n);
        }
        env.world.lock().unwrap().reset_log();
        let es = |e: Box<rustic_core::RusticError>| e.display_log();
        // dry runs: the count thresholds at which an indexer or packer flushes by itself (50 000
        // blobs, out of reach of small inputs) are lowered to 1, so that every "collect now, write
        // at the end" path shows whether its writes are guarded
        let is_dry = matches!(
            a,
            Act::Backup { dry: true } | Act::RepairIndex { dry: true, .. } | Act::RepairSnapshots { dry: true, .. } | Act::Rewrite { dry: true, .. } | Act::PrunePlan(_)
        );
        if is_dry {
            rustic_core::verif::limits::set_indexer_max_count(1);
            rustic_core::verif::limits::set_packer_max_count(1);
        }
        // run the real operation; Ok(description) or Err(message)
        let result: Result<String, String> = (|| {
            match a {
                Act::Backup { dry } => {
                    let repo = env.open_ids().map_err(es)?;
                    env.world.lock().unwrap().reset_log();
                    let snap = backup_with(&repo, &MemSource::new("r", source(s.n)), &format!("s{}", s.n), T0 + 1000 + s.n as i64, &bopts().dry_run(*dry)).map_err(es)?;
                    Ok(format!("tree {}", snap.tree))
                }
                Act::Forget => {
                    let repo = env.open().map_err(es)?;
                    let ids: Vec<_> = repo.get_all_snapshots().map_err(es)?.iter().take(1).map(|s| s.id).collect();
                    env.world.lock().unwrap().reset_log();
                    repo.delete_snapshots(&ids).map_err(es)?;
                    Ok("forgot".into())
                }
                Act::PrunePlan(i) | Act::Prune(i) => {
                    let (_, opts) = prune_opts(*i);
                    let repo = env.open().map_err(es)?;
                    env.world.lock().unwrap().reset_log();
                    let plan = repo.prune_plan(&opts).map_err(es)?;
                    if matches!(a, Act::Prune(_)) {
                        repo.prune(&opts, plan).map_err(es)?;
                    }
                    Ok("pruned".into())
                }
                Act::RepairIndex { read_all, dry } => {
                    let repo = env.open().map_err(es)?;
                    env.world.lock().unwrap().reset_log();
                    repo.repair_index(&RepairIndexOptions::default().read_all(*read_all), *dry).map_err(es)?;
                    Ok("repaired index".into())
                }
                Act::RepairSnapshots { delete, dry } => {
                    let repo = env.open_full().map_err(es)?;
                    let snaps = repo.get_all_snapshots().map_err(es)?;
                    env.world.lock().unwrap().reset_log();
                    repo.repair_snapshots(&RepairSnapshotsOptions::default().delete(*delete), snaps, *dry).map_err(es)?;
                    Ok("repaired snapshots".into())
                }
                Act::Rewrite { forget, trees, dry } => {
                    let repo = env.open_full().map_err(es)?;
                    let snaps = repo.get_all_snapshots().map_err(es)?;
                    env.world.lock().unwrap().reset_log();
                    let opts = RewriteOptions::default().forget(*forget).dry_run(*dry);
                    let res = if *trees {
                        let mut topts = RewriteTreesOptions::default();
                        topts.excludes.globs = vec!["!/r/d1/b".to_string()];
                        repo.rewrite_snapshots_and_trees(snaps, &opts, &topts).map_err(es)?
                    } else {
                        // a snapshot modification that changes every snapshot
                        let mut md = rustic_core::repofile::SnapshotModification::default();
                        md.set_description = Some(format!("rewritten {}", s.n));
                        let opts = opts.modification(md);
                        repo.rewrite_snapshots(snaps, &opts).map_err(es)?
                    };
                    Ok(format!("rewrote {}", res.len()))
                }
                Act::SaveSnapshots => {
                    let repo = env.open().map_err(es)?;
                    let snaps = repo.get_all_snapshots().map_err(es)?;
                    env.world.lock().unwrap().reset_log();
                    repo.save_snapshots(snaps).map_err(es)?;
                    Ok("saved".into())
                }
                Act::Merge => {
                    let repo = env.open_full().map_err(es)?;
                    let snaps = repo.get_all_snapshots().map_err(es)?;
                    env.world.lock().unwrap().reset_log();
                    let snap = SnapshotOptions::default().label(Some(format!("m{}", s.n))).host(Some("h".to_string())).to_snapshot().map_err(es)?;
                    _ = repo.merge_snapshots(&snaps, &last_modified_node, snap).map_err(es)?;
                    Ok("merged".into())
                }
                Act::CopyInto => {
                    // copy a snapshot of another repository into this one
                    let src = Env::single();
                    _ = src.init_with(tiny_config(2)).map_err(es)?;
                    let r = src.open_ids().map_err(es)?;
                    _ = backup_with(&r, &MemSource::new("r", source(7)), "foreign", T0 + 5000, &bopts()).map_err(es)?;
                    let srcf = src.open_full().map_err(es)?;
                    let snaps = srcf.get_all_snapshots().map_err(es)?;
                    let dst = env.open_ids().map_err(es)?;
                    env.world.lock().unwrap().reset_log();
                    srcf.copy(&dst, snaps.iter()).map_err(es)?;
                    Ok("copied".into())
                }
                Act::ApplyConfig(i) => {
                    let mut repo = env.open().map_err(es)?;
                    env.world.lock().unwrap().reset_log();
                    let ch = repo.apply_config(&config_variants(*i)).map_err(es)?;
                    Ok(format!("changed {ch}"))
                }
                Act::SetAppendOnly(v) => {
                    let mut repo = env.open().map_err(es)?;
                    env.world.lock().unwrap().reset_log();
                    let ch = repo.apply_config(&ConfigOptions::default().set_append_only(*v)).map_err(es)?;
                    Ok(format!("changed {ch}"))
                }
                Act::AddKey => {
                    let repo = env.open().map_err(es)?;
                    env.world.lock().unwrap().reset_log();
                    _ = repo.add_key("pw", &KeyOptions::default()).map_err(es)?;
                    Ok("key added".into())
                }
                Act::DeleteKey => {
                    let repo = env.open().map_err(es)?;
                    let keys: Vec<rustic_core::repofile::KeyId> = repo.list().map_err(es)?.collect();
                    env.world.lock().unwrap().reset_log();
                    match keys.first() {
                        Some(k) => repo.delete_key(k).map_err(es)?,
                        None => return Err("no key to delete".into()),
                    }
                    Ok("key deleted".into())
                }
                Act::LosePack | Act::PlantUnindexedPack => unreachable!(),
            }
        })();
        if is_dry {
            rustic_core::verif::limits::set_indexer_max_count(0);
            rustic_core::verif::limits::set_packer_max_count(0);
        }
        let (muts, after) = {
            let w = env.world.lock().unwrap();
            (w.log.iter().filter(|o| o.kind.is_mut()).count(), w.stores[0].clone())
        };
        n.store = after.clone();
        rep.inc(&format!("result:{}:{}", class, if result.is_ok() { "ok" } else { "err" }));
        let refused = result.as_ref().err().is_some_and(|e| e.to_lowercase().contains("append-only"));
        if refused {
            rep.inc("refused_append_only");
            if muts > 0 {
                return Err((format!("C15/refused-but-wrote/{class}"), format!("the operation reported the append-only error after {muts} mutating backend calls")));
            }
        }
        if is_dry {
            rep.inc("dry_run_actions");
            if muts > 0 || !after.same_content(&s.store) {
                return Err((format!("C15/dry-run-wrote/{class}"), format!("a dry run issued {muts} mutating backend calls (store changed: {})", !after.same_content(&s.store))));
            }
        }
        if s.append_only {
            for (t, id, data) in &before {
                match after.get(*t, id) {
                    None => {
                        return Err((format!("C15/append-only/removed/{class}"), format!("{t:?} file {} was removed from an append-only repository (result: {result:?})", vkit::decode::hex_id(id))));
                    }
                    Some(d) if d != data => {
                        return Err((format!("C15/append-only/replaced/{class}"), format!("{t:?} file {} was overwritten in an append-only repository", vkit::decode::hex_id(id))));
                    }
                    _ => {}
                }
            }
            rep.inc("append_only_actions");
        }
        // bookkeeping
        match (a, &result) {
            (Act::Backup { dry: false }, Ok(_)) | (Act::Merge, Ok(_)) => n.n += 1,
            (Act::SetAppendOnly(v), Ok(_)) => n.append_only = *v,
            (Act::AddKey, Ok(_)) => n.keys_added += 1,
            _ => {}
        }
        Ok(n)
    }
}

/// Dry runs of the hot/cold repair: a hot/cold repository after two backups, every single hot file
/// removed in turn and all of them at once; `repair_hotcold_except_packs(true)` and
/// `repair_hotcold_packs(true)` must issue no mutating call on either store.
fn hotcold_dry_runs(rep: &mut Report, args: &Args) {
    let env = Env::hotcold();
    let mut c = tiny_config(2);
    c.datapack_size = Some(600);
    c.datapack_growfactor = Some(0);
    c.treepack_size = Some(500);
    c.treepack_growfactor = Some(0);
    c.is_hot = Some(true);
    _ = env.init_with(c).expect("init");
    for v in 0..2 {
        let repo = env.open_ids().expect("open");
        _ = backup_with(&repo, &MemSource::new("r", source(v)), &format!("s{v}"), T0 + 1000 + v as i64, &bopts()).expect("backup");
    }
    let stores = env.stores();
    let hot_files: Vec<(FileType, rustic_core::Id)> = stores[1].files.iter().map(|(t, i, _)| (*t, *i)).collect();
    let mut cases: Vec<Vec<usize>> = (0..hot_files.len()).map(|i| vec![i]).collect();
    cases.push((0..hot_files.len()).filter(|i| hot_files[*i].0 != FileType::Config).collect());
    for (ci, removed) in cases.iter().enumerate() {
        if !args.mine(ci) {
            continue;
        }
        let mut hot = stores[1].clone();
        for i in removed {
            _ = hot.del(hot_files[*i].0, &hot_files[*i].1);
        }
        if hot.get(FileType::Config, &rustic_core::Id::default()).is_none() {
            // without the hot config the repository cannot be opened through both stores
            continue;
        }
        let mut e = Env::new(vkit::backend::World::from_stores(vec![stores[0].clone(), hot]).shared());
        e.hot = Some(1);
        rep.inc("hotcold_dry_run_cases");
        e.world.lock().unwrap().reset_log();
        let r = (|| -> Result<(), String> {
            e.new_repo().map_err(|x| x.display_log())?.repair_hotcold_except_packs(true).map_err(|x| x.display_log())?;
            e.open().map_err(|x| x.display_log())?.repair_hotcold_packs(true).map_err(|x| x.display_log())
        })();
        let nmut = e.world.lock().unwrap().mut_ops().len();
        let case = json!({"part": "hotcold-dry-run", "removed_hot_files": removed});
        if nmut > 0 {
            let sig = "C15/dry-run-wrote/RepairHotCold/dry".to_string();
            if !rep.has_violation(&sig) {
                rep.violation(sig, format!("dry-run hot/cold repair with hot files {removed:?} removed issued {nmut} mutating backend calls (result {r:?})"), case);
            }
        } else if r.is_err() {
            // (a dry run repairs nothing: with a hot key or index file missing the second step cannot
            // open the repository - an error, but no write)
            rep.inc("hotcold_dry_run_errors");
        }
    }
}

pub fn run(args: &Args, rep: &mut Report) {
    let raw = RawKey::from_master(&master_key());
    let quick = args.quick();
    let depth = if quick { 3 } else { 4 };
    let m = C15 { raw, n_prune: if quick { N_PRUNE_QUICK } else { N_PRUNE_ALL } };
    rep.set_meta("bounds", json!(format!("BFS depth {depth} from an append-only and a normal repository (3 snapshots, one forgotten) over every public mutating operation, each with its dry-run flag where it has one; {} prune option vectors; environment steps: lose a data pack, an unindexed pack appears; plus dry runs of the hot/cold repair with every single hot file (and all of them) removed", m.n_prune)));
    if let Some(p) = &args.replay {
        let v: serde_json::Value = serde_json::from_str(&std::fs::read_to_string(p).unwrap_or_default()).unwrap_or_default();
        if v["case"]["part"].as_str() == Some("hotcold-dry-run") {
            let mut a2 = args.clone();
            a2.replay = None;
            a2.shard = 0;
            a2.nshards = 1;
            hotcold_dry_runs(rep, &a2);
            return;
        }
    }
    bfs(&m, depth, 100_000, args, rep);
    hotcold_dry_runs(rep, args);
}
