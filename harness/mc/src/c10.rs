//! C10 — backups running concurrently with prune or each other stay intact.
//! SCHED with two command threads behind one gate; deviations are command switches at any
//! backend call (reads and lists included).

use std::{collections::BTreeMap, sync::Arc};

use rustic_core::{BackupOptions, LimitOption, PruneOptions, RepositoryBackends};
use serde_json::{Value, json};
use vkit::{
    backend::Store,
    decode::{RawKey, independent_read, index_packs},
    gate::{Exec, Gate, OpDesc, RunEnd, explore_filtered, same_command_first},
    logical::{LTree, diff, model_tree},
    rep::{Env, backup_with, check_errors, master_key, repo_opts},
    report::{Args, Report},
    source::MemSource,
};

use crate::{
    c02::{T0, source},
    c13::{Outcome, config_with_packs, run_gated},
};

type Cmd = Box<dyn FnOnce(RepositoryBackends, Arc<Gate>) -> Result<String, String> + Send>;

fn es<T>(r: rustic_core::RusticResult<T>) -> Result<T, String> {
    r.map_err(|e| e.display_log())
}

fn open_with(bes: &RepositoryBackends) -> Result<rustic_core::Repository<rustic_core::OpenStatus>, String> {
    es(es(rustic_core::Repository::new(&repo_opts(), bes))?.open(&rustic_core::Credentials::Masterkey(master_key())))
}

#[derive(Clone)]
enum Kind {
    Backup { version: usize, label: &'static str },
    Prune { name: &'static str },
    /// out-of-proviso control: prune, 24 h pass, prune again (deletes what the first one marked)
    PruneTwiceLate,
}

fn prune_options(name: &str) -> PruneOptions {
    match name {
        "mark" => PruneOptions::default(),
        "repack-fast" => PruneOptions::default().max_unused(LimitOption::Percentage(0)).max_repack(LimitOption::Unlimited).fast_repack(true),
        "repack-slow" => PruneOptions::default().max_unused(LimitOption::Percentage(0)).max_repack(LimitOption::Unlimited),
        _ => PruneOptions::default(),
    }
}

fn make(kind: &Kind) -> Cmd {
    let kind = kind.clone();
    Box::new(move |bes, _gate| match kind {
        Kind::Backup { version, label } => {
            let repo = es(open_with(&bes)?.to_indexed_ids())?;
            es(backup_with(&repo, &MemSource::new("r", source(version)), label, T0 + 2000 + version as i64, &vkit::rep::bopts()))?;
            Ok(label.to_string())
        }
        Kind::Prune { name } => {
            let repo = open_with(&bes)?;
            let opts = prune_options(name);
            let plan = es(repo.prune_plan(&opts))?;
            es(repo.prune(&opts, plan))?;
            Ok("prune".into())
        }
        Kind::PruneTwiceLate => {
            let opts = PruneOptions::default();
            let repo = open_with(&bes)?;
            let plan = es(repo.prune_plan(&opts))?;
            es(repo.prune(&opts, plan))?;
            rustic_core::verif::clock::set_offset_secs(24 * 3600);
            let repo = open_with(&bes)?;
            let plan = es(repo.prune_plan(&opts))?;
            es(repo.prune(&opts, plan))?;
            Ok("prune twice".into())
        }
    })
}

struct Scenario {
    name: String,
    store: Store,
    cmds: Vec<Kind>,
    /// content of the snapshots that exist before
    base: BTreeMap<String, LTree>,
    control: bool,
}

fn base_store() -> (Store, BTreeMap<String, LTree>) {
    // one-blob packs: every unused blob is an unused pack which a non-instant prune marks
    let env = Env::single();
    _ = env.init_with(config_with_packs(2, 10, 10)).expect("init");
    let mut base = BTreeMap::new();
    for v in 0..2 {
        let repo = env.open_ids().expect("open");
        _ = backup_with(&repo, &MemSource::new("r", source(v)), &format!("s{v}"), T0 + 1000 + v as i64, &vkit::rep::bopts()).expect("backup");
    }
    // forget s0: its exclusive blobs (d1/b(0), middle of d2/c(0), d3/e, d3/f(0)) become unused
    let repo = env.open().expect("open");
    let ids: Vec<_> = repo.get_all_snapshots().unwrap().iter().filter(|s| s.label == "s0").map(|s| s.id).collect();
    repo.delete_snapshots(&ids).expect("forget");
    _ = base.insert("s1".to_string(), model_tree("r", &source(1)));
    (env.store(), base)
}

fn scenarios() -> Vec<Scenario> {
    let (store, base) = base_store();
    let a = Kind::Backup { version: 2, label: "a" }; // shares d3/e and d3/f only with the forgotten s0
    let mut v = Vec::new();
    for (n, b) in [
        ("backup||prune-mark", Kind::Prune { name: "mark" }),
        ("backup||prune-repack-fast", Kind::Prune { name: "repack-fast" }),
        ("backup||prune-repack-slow", Kind::Prune { name: "repack-slow" }),
        ("backup||backup", Kind::Backup { version: 4, label: "b" }),
    ] {
        for swap in [false, true] {
            let cmds = if swap { vec![b.clone(), a.clone()] } else { vec![a.clone(), b.clone()] };
            v.push(Scenario {
                name: format!("{n}{}", if swap { "/other-first" } else { "" }),
                store: store.clone(),
                cmds,
                base: base.clone(),
                control: false,
            });
        }
    }
    // every snapshot forgotten before: the prune marks *all* packs (its new index lists marked packs
    // only) while the backup re-uses blobs of them
    {
        let env = Env::from_store(store.clone());
        let repo = env.open().expect("open");
        let ids: Vec<_> = repo.get_all_snapshots().unwrap().iter().map(|s| s.id).collect();
        repo.delete_snapshots(&ids).expect("forget");
        for swap in [false, true] {
            let b = Kind::Prune { name: "mark" };
            let a1 = Kind::Backup { version: 1, label: "a" };
            v.push(Scenario {
                name: format!("backup||prune-mark-all-forgotten{}", if swap { "/other-first" } else { "" }),
                store: env.store(),
                cmds: if swap { vec![b, a1] } else { vec![a1, b] },
                base: BTreeMap::new(),
                control: false,
            });
        }
    }
    v.push(Scenario {
        name: "CONTROL/backup||prune-then-24h-then-prune".into(),
        store,
        cmds: vec![a, Kind::PruneTwiceLate],
        base,
        control: true,
    });
    v
}

/// after both commands: one hour passes, a further prune runs, then everything must be intact
fn judge(raw: &RawKey, sc: &Scenario, x: &Exec<Vec<Outcome>>, read_data: bool, rep: &mut Report) -> Result<(), (String, String)> {
    let n = sc.name.split('/').next().unwrap_or("");
    match &x.end {
        RunEnd::Finished => {}
        RunEnd::Deadlock(who) => return Err((format!("C10/{n}/deadlock"), format!("quiescent with nothing pending but {who:?} unfinished"))),
        RunEnd::Hang(m) => return Err(("INCONCLUSIVE".into(), m.chars().take(80).collect())),
    }
    let env = Env::from_store(x.outcome[0].store.clone());
    let mut expect = sc.base.clone();
    for (i, k) in sc.cmds.iter().enumerate() {
        if let Kind::Backup { version, label } = k {
            match &x.outcome[i].result {
                Ok(_) => {
                    _ = expect.insert((*label).to_string(), model_tree("r", &source(*version)));
                }
                Err(e) => {
                    rep.inc("command_errors");
                    rep.note(format!("a backup failed under interleaving: {}", &e[..e.len().min(160)]));
                }
            }
        } else if let Err(e) = &x.outcome[i].result {
            rep.inc("command_errors");
            rep.note(format!("a prune failed under interleaving: {}", &e[..e.len().min(160)]));
        }
    }
    // did the late backup reuse blobs from packs which are marked now?
    let needs_recover = independent_read(raw, &env.store())
        .ok()
        .is_none_or(|m| expect.iter().any(|(l, t)| m.get(l).is_none_or(|g| diff(t, g).is_some())));
    if needs_recover {
        rep.inc("needs_recover_before_followup_prune");
    }
    // follow-up: 1 h later, prune with a fresh handle (inside keep-delete)
    let base_off = rustic_core::verif::clock::offset_secs();
    rustic_core::verif::clock::set_offset_secs(base_off + 3600);
    let repo = env.open().map_err(|e| (format!("C10/{n}/followup-open"), e.display_log()))?;
    let opts = PruneOptions::default();
    let plan = repo.prune_plan(&opts).map_err(|e| (format!("C10/{n}/followup-prune-plan"), e.display_log()))?;
    if plan.stats.packs_to_delete.recover > 0 {
        rep.inc("followup_prune_recovered_packs");
    }
    repo.prune(&opts, plan).map_err(|e| (format!("C10/{n}/followup-prune"), e.display_log()))?;
    let got = independent_read(raw, &env.store()).map_err(|e| (format!("C10/{n}/data-loss"), format!("after the follow-up prune: {e}")))?;
    for (l, t) in &expect {
        match got.get(l) {
            None => return Err((format!("C10/{n}/snapshot-missing"), format!("snapshot {l} of a successful command is not present"))),
            Some(g) => {
                if let Some(d) = diff(t, g) {
                    return Err((format!("C10/{n}/data-loss"), format!("snapshot {l}: {d}")));
                }
            }
        }
    }
    for l in got.keys() {
        if !expect.contains_key(l) {
            return Err((format!("C10/{n}/snapshot-of-failed-command"), format!("snapshot {l} is present although its command reported an error")));
        }
    }
    if index_packs(raw, &env.store()).is_ok_and(|p| p.iter().any(|p| p.marked)) {
        rep.inc("final_states_with_marked_packs");
    }
    if read_data {
        let errs = check_errors(&env, true).map_err(|e| (format!("C10/{n}/check"), e))?;
        if !errs.is_empty() {
            return Err((format!("C10/{n}/check-errors"), errs.join(" | ")));
        }
    }
    Ok(())
}

pub fn run(args: &Args, rep: &mut Report) {
    let raw = RawKey::from_master(&master_key());
    let quick = args.quick();
    let bound = if quick { 2 } else { 3 };
    let max_execs = if quick { 150 } else { 20_000 };
    rep.set_meta("bounds", json!(format!(
        "two real commands behind one gate; default = stay with the running command; all schedules with <= {bound} command switches at any backend call (reads and lists included), <= {max_execs} executions per scenario and shard; scenarios: backup||prune (mark only, repack fast, repack slow), backup||backup, each with either command first; follow-up: +1 h, prune, independent read of every snapshot{}",
        if quick { "" } else { ", check --read-data" })));
    rep.set_meta("assumptions", json!(["the follow-up prune runs inside keep-delete (23 h); the out-of-proviso control scenario must lose data, otherwise the harness is not observing what it claims"]));
    // worker threads of a command that fails under an interleaving may panic on a closed channel
    std::panic::set_hook(Box::new(|_| {}));
    let scs = scenarios();
    if let Some(p) = &args.replay {
        let v: Value = serde_json::from_str(&std::fs::read_to_string(p).unwrap()).unwrap();
        let c = &v["case"];
        let sc = scs.iter().find(|s| Some(s.name.as_str()) == c["scenario"].as_str()).expect("scenario");
        let prefix: Vec<OpDesc> = serde_json::from_value(c["schedule"].clone()).unwrap_or_default();
        rustic_core::verif::clock::set_offset_secs(0);
        let x = run_gated(&raw, vec![sc.store.clone()], &prefix, true, sc.cmds.iter().map(make).collect(), same_command_first);
        rep.inc("executions");
        if let Err((sig, msg)) = judge(&raw, sc, &x, true, rep) {
            if sig == "INCONCLUSIVE" {
                rep.machinery(msg);
            } else {
                rep.violation(sig, msg, c.clone());
            }
        }
        return;
    }
    for sc in &scs {
        let mut control_violations = 0usize;
        let (_n, capped) = explore_filtered(
            bound,
            max_execs,
            (args.shard, args.nshards),
            |chosen, alt| chosen.cmd != alt.cmd,
            |prefix| {
                rustic_core::verif::clock::set_offset_secs(0);
                run_gated(&raw, vec![sc.store.clone()], prefix, true, sc.cmds.iter().map(make).collect(), same_command_first)
            },
            |prefix, x| {
                rep.inc("executions");
                rep.inc(&format!("executions:{}", sc.name));
                rep.count("transitions", x.steps.len() as u64);
                rep.count("divergences", x.divergences as u64);
                rep.max("max_steps", x.steps.len() as u64);
                for st in &x.outcome[0].states {
                    _ = rep.distinct("state", &vkit::decode::canon_store(&raw, &st[0]));
                }
                let order: Vec<String> = x.steps.iter().map(|s| format!("{}", s.pending[s.choice].cmd)).collect();
                _ = rep.distinct("command_interleavings", &(sc.name.as_str(), order.join("")));
                if rep.samples.len() < 3 && prefix.len() > 3 {
                    rep.sample(json!({"scenario": sc.name, "interleaving (command per step)": order.join(""), "schedule_prefix": prefix.iter().map(|o| o.short()).collect::<Vec<_>>() }));
                }
                match judge(&raw, sc, x, !quick, rep) {
                    Ok(()) => {}
                    Err((sig, _)) if sig == "INCONCLUSIVE" => {
                        rep.inc("inconclusive_executions");
                        rep.cap("some executions did not reach quiescence within the time limit and were discarded");
                    }
                    Err((sig, msg)) => {
                        if sc.control {
                            control_violations += 1;
                        } else {
                            rep.violation(sig, msg, json!({"scenario": sc.name, "schedule": prefix}));
                        }
                    }
                }
            },
        );
        if capped {
            rep.cap(format!("scenario {}: execution cap {max_execs} reached", sc.name));
        }
        if sc.control {
            rep.count("control_data_loss_executions", control_violations as u64);
        }
        if rep.get("divergences") > 0 {
            rep.cap("some replayed schedule prefixes diverged (uncontrolled internal nondeterminism, counted under `divergences`); every execution was still checked");
        }
    }
}
