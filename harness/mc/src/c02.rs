//! C02 — forget and prune never lose data still referenced by a snapshot.
//! SEQ: histories over {backup(next version), stale backup, forget(subset), prune(option vector),
//! clock ticks, duplicate index file} on real handles; invariant on every distinct state.

use std::collections::{BTreeMap, BTreeSet};

use bytesize::ByteSize;
use jiff::Span;
use rustic_core::{BackupOptions, FileType, LimitOption, PruneOptions};
use serde::{Deserialize, Serialize};
use serde_json::json;
use vkit::{
    backend::Store,
    decode::{RawKey, canon_store_at, hex_id, id_of, independent_read, index_packs, open_json, seal_json, build_pack},
    logical::{LTree, diff, model_tree},
    rep::{Env, backup_with, check_errors, master_key, read_all, tiny_config},
    report::{Args, Report},
    seq::{SeqModel, Viol, bfs},
    source::{Entry, MemSource},
};

pub const T0: i64 = 1_700_000_000;

/// evolving 3-directory source
pub fn source(v: usize) -> Entry {
    let mut t = Entry::dir(T0);
    let lcg = |seed: u64, n: usize| -> Vec<u8> {
        let mut x = seed.wrapping_mul(0x9E37_79B9_7F4A_7C15).wrapping_add(7);
        (0..n)
            .map(|_| {
                x = x.wrapping_mul(6364136223846793005).wrapping_add(1442695040888963407);
                (x >> 33) as u8
            })
            .collect()
    };
    // constant across versions
    t.insert("d1/a", Entry::file(lcg(1, 300), T0 + 1));
    // a directory which never changes: its tree blob is shared by all versions, so the tree pack of
    // the first backup stays partly used when that snapshot is forgotten (tree repacking)
    t.insert("d0/k", Entry::file(lcg(5, 120), T0 + 5));
    // changes with every version
    t.insert("d1/b", Entry::file(lcg(100 + v as u64, 200), T0 + 10 + v as i64));
    // multi-chunk file with a middle part depending on v
    let mut c = lcg(2, 400);
    c.extend_from_slice(&lcg(200 + v as u64, 150));
    c.extend_from_slice(&lcg(3, 400));
    t.insert("d2/c", Entry::file(c, T0 + 20 + v as i64));
    // exists only in even versions
    if v % 2 == 0 {
        t.insert("d3/e", Entry::file(lcg(4, 100), T0 + 30));
    }
    // content shared with version v-2 only
    t.insert("d3/f", Entry::file(lcg(300 + (v % 2) as u64, 180), T0 + 40 + v as i64));
    t
}

pub fn prune_opts(i: usize) -> (String, PruneOptions) {
    let d = PruneOptions::default;
    let m90 = Span::new().minutes(90);
    let zero = Span::new();
    let v: Vec<(&str, PruneOptions)> = vec![
        ("default", d()),
        ("kd0", d().keep_delete(zero)),
        ("kd90", d().keep_delete(m90)),
        ("unused0-kd0", d().max_unused(LimitOption::Percentage(0)).keep_delete(zero)),
        ("unused0-repackunl-kd90", d().max_unused(LimitOption::Percentage(0)).max_repack(LimitOption::Unlimited).keep_delete(m90)),
        ("instant", d().instant_delete(true)),
        ("instant-unused0-repackunl", d().instant_delete(true).max_unused(LimitOption::Percentage(0)).max_repack(LimitOption::Unlimited)),
        ("fast-unused0-repackunl-kd0", d().fast_repack(true).max_unused(LimitOption::Percentage(0)).max_repack(LimitOption::Unlimited).keep_delete(zero)),
        ("repackall-repackunl-kd0", d().repack_all(true).max_repack(LimitOption::Unlimited).keep_delete(zero)),
        ("keeppack90-unused0-repackunl", d().keep_pack(m90).max_unused(LimitOption::Percentage(0)).max_repack(LimitOption::Unlimited)),
        // ---- quick tier ends here ----
        ("unused50", d().max_unused(LimitOption::Percentage(50)).max_repack(LimitOption::Unlimited).keep_delete(zero)),
        ("unused99", d().max_unused(LimitOption::Percentage(99)).max_repack(LimitOption::Unlimited).keep_delete(zero)),
        ("unused-size0", d().max_unused(LimitOption::Size(ByteSize(0))).max_repack(LimitOption::Unlimited).keep_delete(zero)),
        ("unused-size1k", d().max_unused(LimitOption::Size(ByteSize(1024))).max_repack(LimitOption::Unlimited).keep_delete(zero)),
        ("unused-unl", d().max_unused(LimitOption::Unlimited).keep_delete(zero)),
        ("repack0", d().max_unused(LimitOption::Percentage(0)).max_repack(LimitOption::Percentage(0)).keep_delete(zero)),
        ("repack-size1k", d().max_unused(LimitOption::Percentage(0)).max_repack(LimitOption::Size(ByteSize(1024))).keep_delete(zero)),
        ("repackuncompressed", d().repack_uncompressed(true).max_repack(LimitOption::Unlimited).keep_delete(zero)),
        ("noresize-unused0", d().no_resize(true).max_unused(LimitOption::Percentage(0)).max_repack(LimitOption::Unlimited).keep_delete(zero)),
        ("cacheable-only", d().repack_cacheable_only(Some(true)).max_unused(LimitOption::Percentage(0)).max_repack(LimitOption::Unlimited).keep_delete(zero)),
        ("cacheable-false-fast", d().repack_cacheable_only(Some(false)).fast_repack(true).repack_all(true).max_repack(LimitOption::Unlimited).keep_delete(zero)),
        ("instant-fast-repackall", d().instant_delete(true).fast_repack(true).repack_all(true).max_repack(LimitOption::Unlimited)),
        ("instant-noresize-uncompressed", d().instant_delete(true).no_resize(true).repack_uncompressed(true).max_repack(LimitOption::Unlimited)),
        ("kd23h-keeppack90-repackall", d().keep_pack(m90).repack_all(true).max_repack(LimitOption::Unlimited)),
        ("instant-early-delete-index", d().instant_delete(true).early_delete_index(true).max_unused(LimitOption::Percentage(0)).max_repack(LimitOption::Unlimited)),
    ];
    let (n, o) = v.into_iter().nth(i).expect("prune option index");
    (n.to_string(), o)
}
pub const N_PRUNE_QUICK: usize = 10;
pub const N_PRUNE_ALL: usize = 25;

#[derive(Clone, Debug, Serialize, Deserialize, PartialEq, Eq)]
pub enum Act {
    Backup,
    /// backup through a handle whose index was loaded k states earlier
    BackupStale(usize),
    Forget(Vec<String>),
    Prune(usize),
    /// forget and prune at once: the plan is made while the snapshot still exists but is told to
    /// ignore it (`ignore_snaps`), then the snapshot is removed and the plan is executed
    ForgetPrune(String, usize),
    Tick(i64),
    DupIndex,
    ListReversed,
}

#[derive(Clone)]
pub struct St {
    pub store: Store,
    /// ancestors (most recent first) from which a stale handle may still be used
    pub prev: Vec<Store>,
    pub model: BTreeMap<String, LTree>,
    pub nbackups: usize,
    pub clock: i64,
    /// snapshots written by a stale handle which may need the next prune to recover their blobs
    pub pending: BTreeSet<String>,
    pub list_rev: bool,
    /// model clock at which each pack that is listed as marked for deletion was first seen marked
    /// (kept by the harness: the time the index records for a marked pack is the subject's claim)
    pub marked_at: BTreeMap<String, i64>,
}

pub struct C02 {
    pub raw: RawKey,
    pub n_prune: usize,
    pub check_read_data: bool,
    pub collide: bool,
}

fn now_s(clock: i64) -> i64 {
    jiff::Timestamp::now().as_second() + clock
}

fn env_of(s: &St) -> Env {
    let env = Env::from_store(s.store.clone());
    env.world.lock().unwrap().list_reversed = s.list_rev;
    env
}

pub fn fresh_repo(collide: bool) -> St {
    let env = Env::single();
    // with `collide` the default chunker is used so that a small file is one chunk and can be
    // byte-identical to a tree blob; one-blob packs make the in-run order deterministic
    let mut cfg = if collide { vkit::rep::base_config(2) } else { tiny_config(2) };
    cfg.datapack_size = Some(if collide { 10 } else { 600 });
    cfg.datapack_growfactor = Some(0);
    cfg.treepack_size = Some(if collide { 10 } else { 500 });
    cfg.treepack_growfactor = Some(0);
    _ = env.init_with(cfg).expect("init");
    St {
        store: env.store(),
        prev: Vec::new(),
        model: BTreeMap::new(),
        nbackups: 0,
        clock: 0,
        pending: BTreeSet::new(),
        list_rev: false,
        marked_at: BTreeMap::new(),
    }
}

impl C02 {
    fn src(&self, v: usize) -> Entry {
        let mut t = source(v);
        if self.collide {
            // files whose bytes equal the serialised tree of directory d3 of the same version (once
            // sorted before d3, once after) and of directory d1 of the previous version
            if let Some(bytes) = tree_bytes_of(&source(v), "d3") {
                t.insert("d2/treecopy", Entry::file(bytes.clone(), T0 + 50 + v as i64));
                t.insert("d4/treecopy", Entry::file(bytes, T0 + 50 + v as i64));
            }
            if v >= 1 {
                if let Some(bytes) = tree_bytes_of(&source(v - 1), "d1") {
                    t.insert("d4/oldtreecopy", Entry::file(bytes, T0 + 50 + v as i64));
                }
            }
        }
        t
    }
}

/// serialised tree blob of directory `dir` of source `t` (taken from a scratch backup)
pub fn tree_bytes_of(t: &Entry, dir: &str) -> Option<Vec<u8>> {
    let env = Env::single();
    _ = env.init_with(vkit::rep::base_config(2)).ok()?;
    let repo = env.open_ids().ok()?;
    let snap = backup_with(&repo, &MemSource::new("r", t.clone()), "x", T0, &vkit::rep::bopts()).ok()?;
    let full = env.open_full().ok()?;
    let node = full.node_from_snapshot_and_path(&snap, &format!("r/{dir}")).ok()?;
    let id = node.subtree?;
    full.cat_blob(rustic_core::repofile::BlobType::Tree, &id.to_hex()).ok().map(|b| b.to_vec())
}

impl SeqModel for C02 {
    type State = St;
    type Action = Act;

    fn initial(&self) -> Vec<(String, St)> {
        let mut out = vec![("empty".to_string(), fresh_repo(self.collide))];
        // a repo with two snapshots, the first one forgotten (prune has work to do)
        let mut s = fresh_repo(self.collide);
        let mut rep = Report::default();
        for a in [Act::Backup, Act::Backup, Act::Forget(vec!["s0".into()])] {
            s = self.step(&s, &a, &mut rep).expect("building initial state");
        }
        out.push(("two-snaps-one-forgotten".to_string(), s.clone()));
        // the same with an unreferenced pack planted (a pack no index lists)
        let mut s2 = s;
        let (pack, _) = build_pack(&self.raw, &[(0, b"unreferenced blob".to_vec())], 4242);
        s2.store.put(FileType::Pack, &id_of(&pack), pack.into());
        s2.prev.clear();
        out.push(("with-unreferenced-pack".to_string(), s2));
        out
    }

    fn actions(&self, s: &St) -> Vec<Act> {
        let mut v = Vec::new();
        if s.nbackups < 5 {
            v.push(Act::Backup);
        }
        let live: Vec<String> = s.model.keys().cloned().collect();
        // all non-empty subsets of live snapshots (<= 3 live => <= 7)
        if live.len() <= 3 {
            for mask in 1..(1u32 << live.len()) {
                v.push(Act::Forget(
                    live.iter().enumerate().filter(|(i, _)| mask & (1 << i) != 0).map(|(_, l)| l.clone()).collect(),
                ));
            }
        } else {
            for l in &live {
                v.push(Act::Forget(vec![l.clone()]));
            }
        }
        for i in 0..self.n_prune {
            v.push(Act::Prune(i));
        }
        for l in live.iter().take(3) {
            for i in [0usize, 3, 6] {
                v.push(Act::ForgetPrune(l.clone(), i));
            }
        }
        v.push(Act::Tick(3600));
        v.push(Act::Tick(24 * 3600));
        if s.nbackups < 5 {
            for k in 0..s.prev.len() {
                v.push(Act::BackupStale(k));
            }
        }
        if !s.store.ids(FileType::Index).is_empty() && s.store.ids(FileType::Index).len() < 4 {
            v.push(Act::DupIndex);
        }
        if !s.list_rev {
            v.push(Act::ListReversed);
        }
        v
    }

    fn action_class(&self, a: &Act) -> String {
        match a {
            Act::Backup => "backup".into(),
            Act::BackupStale(_) => "backup_stale".into(),
            Act::Forget(_) => "forget".into(),
            Act::Prune(_) => "prune".into(),
            Act::ForgetPrune(..) => "forget_prune".into(),
            Act::Tick(_) => "tick".into(),
            Act::DupIndex => "dup_index".into(),
            Act::ListReversed => "list_reversed".into(),
        }
    }

    fn canon(&self, s: &St) -> String {
        let mut lines = canon_store_at(&self.raw, &s.store, Some(now_s(s.clock)));
        lines.push(format!("nbackups={} pending={:?} rev={}", s.nbackups, s.pending, s.list_rev));
        lines.push(format!("stale-handles={}", s.prev.len()));
        // ages of the marks as the harness saw them, in the buckets of the store's canonical form
        let mut ages: Vec<&'static str> = s
            .marked_at
            .values()
            .map(|t| match s.clock - t {
                a if a < 5400 => "young",
                a if a < 82800 => "mid",
                _ => "old",
            })
            .collect();
        ages.sort_unstable();
        lines.push(format!("marks-seen={ages:?}"));
        lines.join("\n")
    }

    fn step(&self, s: &St, a: &Act, rep: &mut Report) -> Result<St, Viol> {
        rustic_core::verif::clock::set_offset_secs(s.clock);
        let env = env_of(s);
        let mut n = s.clone();
        let err = |what: &str, e: Box<rustic_core::RusticError>| -> Viol {
            (format!("C02/{what}/error"), format!("{what} failed on a healthy repository: {}", e.display_log()))
        };
        // which ancestors stay usable for a stale handle after this action
        let mut keep_prev = true;
        match a {
            Act::Backup | Act::BackupStale(_) => {
                let v = s.nbackups;
                let label = format!("s{v}");
                let tree = self.src(v);
                let src = MemSource::new("r", tree.clone());
                let time = T0 + 1000 + 60 * v as i64;
                let res = match a {
                    Act::BackupStale(k) => {
                        // the handle loads its index from the ancestor state ...
                        env.set_store(s.prev[*k].clone());
                        let repo = env.open_ids().map_err(|e| err("open", e))?;
                        // ... and runs on the current one
                        env.set_store(s.store.clone());
                        backup_with(&repo, &src, &label, time, &vkit::rep::bopts())
                    }
                    _ => {
                        let repo = env.open_ids().map_err(|e| err("open", e))?;
                        backup_with(&repo, &src, &label, time, &vkit::rep::bopts())
                    }
                };
                _ = res.map_err(|e| err("backup", e))?;
                n.store = env.store();
                _ = n.model.insert(label.clone(), model_tree("r", &tree));
                n.nbackups += 1;
                // A snapshot written through a stale handle may depend on blobs that are only in
                // marked packs now; so may a later regular backup whose parent is such a snapshot
                // (a tree equal to the parent's is not written again): both are brought back by the
                // next prune, which is what the invariant after that prune demands.
                if matches!(a, Act::BackupStale(_)) || !s.pending.is_empty() {
                    let ok = independent_read(&self.raw, &n.store)
                        .ok()
                        .and_then(|m| m.get(&label).cloned())
                        .is_some_and(|t| diff(&n.model[&label], &t).is_none());
                    if !ok {
                        _ = n.pending.insert(label);
                        rep.inc("stale_backup_needs_recover");
                    }
                }
            }
            Act::Forget(labels) => {
                let repo = env.open().map_err(|e| err("open", e))?;
                let snaps = repo.get_all_snapshots().map_err(|e| err("get_all_snapshots", e))?;
                let ids: Vec<_> = snaps.iter().filter(|sn| labels.contains(&sn.label)).map(|sn| sn.id).collect();
                if ids.len() != labels.len() {
                    return Err(("C02/forget/listing".into(), format!("snapshots {labels:?} not all listed")));
                }
                repo.delete_snapshots(&ids).map_err(|e| err("forget", e))?;
                n.store = env.store();
                for l in labels {
                    _ = n.model.remove(l);
                    _ = n.pending.remove(l);
                }
            }
            Act::Prune(_) | Act::ForgetPrune(..) => {
                let (i, labels): (usize, Vec<String>) = match a {
                    Act::Prune(i) => (*i, vec![]),
                    Act::ForgetPrune(l, i) => (*i, vec![l.clone()]),
                    _ => unreachable!(),
                };
                let (name, mut opts) = prune_opts(i);
                let repo = env.open().map_err(|e| err("open", e))?;
                let before = index_packs(&self.raw, &s.store).unwrap_or_default();
                let mut ids = Vec::new();
                if !labels.is_empty() {
                    let snaps = repo.get_all_snapshots().map_err(|e| err("get_all_snapshots", e))?;
                    ids = snaps.iter().filter(|sn| labels.contains(&sn.label)).map(|sn| sn.id).collect();
                    if ids.len() != labels.len() {
                        return Err(("C02/forget/listing".into(), format!("snapshots {labels:?} not all listed")));
                    }
                    opts = opts.ignore_snaps(ids.clone());
                }
                let plan = repo.prune_plan(&opts).map_err(|e| err("prune_plan", e))?;
                if !labels.is_empty() {
                    repo.delete_snapshots(&ids).map_err(|e| err("forget", e))?;
                    for l in &labels {
                        _ = n.model.remove(l);
                        _ = n.pending.remove(l);
                    }
                }
                for k in plan.stats.debug.0.keys() {
                    rep.inc(&format!("todo:{:?}", k.todo));
                }
                if plan.stats.packs_unref > 0 {
                    rep.inc("todo:unreferenced-pack");
                }
                repo.prune(&opts, plan).map_err(|e| err("prune", e))?;
                n.store = env.store();
                // post-condition: a pack may disappear only if instant_delete, or if it was marked
                // and its mark is at least keep_delete old
                let now = now_s(s.clock);
                let kd = opts.keep_delete.total(jiff::Unit::Second).unwrap_or(0.0) as i64;
                for (pid, _) in s.store.list(FileType::Pack) {
                    if n.store.get(FileType::Pack, &pid).is_some() {
                        continue;
                    }
                    let h = hex_id(&pid);
                    let listed: Vec<_> = before.iter().filter(|p| p.pack_id == h).collect();
                    // both clocks must agree: the time the index recorded for the mark, and the
                    // model clock at which the harness first saw the pack marked
                    let marked_old_enough = listed.iter().any(|p| {
                        p.marked
                            && p.time
                                .as_ref()
                                .and_then(|t| t.parse::<jiff::Timestamp>().ok())
                                .is_some_and(|t| now - t.as_second() >= kd - 2)
                    }) && s.marked_at.get(&h).is_some_and(|t| s.clock - t + 5 >= kd);
                    if !(opts.instant_delete || marked_old_enough) {
                        return Err((
                            "C02/prune/pack-removed-too-early".into(),
                            format!("prune[{name}] removed pack {} which was not marked for at least keep-delete ({kd}s); listed as {:?}",
                                &h[..8], listed.iter().map(|p| (p.marked, p.time.clone(), s.marked_at.get(&h).map(|t| s.clock - t))).collect::<Vec<_>>()),
                        ));
                    }
                }
                // remember when each marked pack was first seen marked
                let after = index_packs(&self.raw, &n.store).unwrap_or_default();
                let marked_now: BTreeSet<String> = after.iter().filter(|p| p.marked).map(|p| p.pack_id.clone()).collect();
                n.marked_at.retain(|k, _| marked_now.contains(k));
                for k in marked_now {
                    _ = n.marked_at.entry(k).or_insert(s.clock);
                }
                // a completed prune recovers what pending snapshots need
                n.pending.clear();
                // stale handles older than a prune that may delete are no longer within the proviso
                if opts.instant_delete || kd == 0 {
                    keep_prev = false;
                }
            }
            Act::Tick(d) => {
                n.clock += d;
                keep_prev = false;
            }
            Act::DupIndex => {
                let id = s.store.ids(FileType::Index)[0];
                let v = open_json(&self.raw, s.store.get(FileType::Index, &id).unwrap())
                    .map_err(|e| ("C02/dup-index/decode".to_string(), e))?;
                let data = seal_json(&self.raw, &v, 9000 + s.store.len() as u64);
                n.store.put(FileType::Index, &id_of(&data), data.into());
            }
            Act::ListReversed => {
                n.list_rev = true;
            }
        }
        if keep_prev {
            n.prev.insert(0, s.store.clone());
            n.prev.truncate(2);
        } else {
            n.prev.clear();
        }
        Ok(n)
    }

    fn invariant(&self, s: &St, rep: &mut Report) -> Result<(), Viol> {
        rustic_core::verif::clock::set_offset_secs(s.clock);
        let env = env_of(s);
        let expect: BTreeMap<&String, &LTree> = s.model.iter().filter(|(l, _)| !s.pending.contains(*l)).collect();
        // (1) public API read-back of every live snapshot
        match read_all(&env) {
            Err(e) if s.pending.is_empty() => {
                return Err(("C02/read/api".into(), format!("reading snapshots through the API failed: {e}")));
            }
            Err(_) => {}
            Ok(got) => {
                for (l, t) in &expect {
                    match got.get(*l) {
                        None => return Err(("C02/read/api".into(), format!("snapshot {l} not listed"))),
                        Some(g) => {
                            if let Some(d) = diff(t, g) {
                                return Err(("C02/read/api".into(), format!("snapshot {l}: {d}")));
                            }
                        }
                    }
                }
                if got.len() != s.model.len() {
                    return Err(("C02/read/api".into(), format!("listed snapshots {:?} != model {:?}", got.keys().collect::<Vec<_>>(), s.model.keys().collect::<Vec<_>>())));
                }
            }
        }
        // (2) independent decoder: every listed (unmarked) copy of every needed blob is good
        if s.pending.is_empty() {
            let got = independent_read(&self.raw, &s.store)
                .map_err(|e| ("C02/read/independent".to_string(), e))?;
            for (l, t) in &expect {
                if let Some(d) = got.get(*l).map_or(Some("missing".to_string()), |g| diff(t, g)) {
                    return Err(("C02/read/independent".into(), format!("snapshot {l}: {d}")));
                }
            }
        }
        // (3) every pack that an index lists as marked still exists
        for p in index_packs(&self.raw, &s.store).map_err(|e| ("C02/index/decode".to_string(), e))? {
            if p.marked && s.store.get(FileType::Pack, &p.pack_id.parse().unwrap()).is_none() {
                return Err(("C02/marked-pack-missing".into(), format!("pack {} is listed in packs_to_delete but does not exist", &p.pack_id[..8])));
            }
        }
        // (4) check --read-data
        if self.check_read_data && s.pending.is_empty() {
            rep.inc("check_read_data_runs");
            let errs = check_errors(&env, true).map_err(|e| ("C02/check/failed".to_string(), e))?;
            if !errs.is_empty() {
                let kind: String = errs[0].chars().take_while(|c| c.is_alphanumeric()).collect();
                return Err((format!("C02/check/{kind}"), format!("check --read-data reports: {}", errs.join(" | "))));
            }
        }
        Ok(())
    }
}

pub fn run(args: &Args, rep: &mut Report) {
    let quick = args.quick();
    let raw = RawKey::from_master(&master_key());
    let depth = if quick { 3 } else { 4 };
    let m = C02 {
        raw: raw.clone(),
        n_prune: if quick { N_PRUNE_QUICK } else { N_PRUNE_ALL },
        check_read_data: true,
        collide: false,
    };
    // second scenario: sources containing files byte-identical to tree blobs (tree/data id collisions)
    let depth2 = if quick { 2 } else { 3 };
    let m2 = C02 {
        raw,
        n_prune: if quick { N_PRUNE_QUICK } else { N_PRUNE_ALL },
        check_read_data: true,
        collide: true,
    };
    rep.set_meta("bounds", json!(format!(
        "BFS depth {depth} from 3 initial states (depth {depth2} for the tree/data id-collision scenario; the first scenario is run a second time with prune's small-index threshold lowered to 1); {} prune option vectors; <=5 backups; forget = every non-empty subset of <=3 live snapshots; stale handles <=2 states old; check --read-data on every distinct state",
        m.n_prune)));
    rep.set_meta("assumptions", json!(["stale (concurrent) handles are only used within the keep-delete proviso; their snapshots are exempt from the read oracle until the next prune (C10 covers the interleavings)"]));
    if let Some(p) = &args.replay {
        let v: serde_json::Value = serde_json::from_str(&std::fs::read_to_string(p).expect("replay file")).expect("json");
        if v["case"]["scenario"].as_str() == Some("large-index-files") {
            rustic_core::verif::limits::set_min_index_len(1);
            vkit::seq::replay(&m, &v["case"], rep);
            rustic_core::verif::limits::set_min_index_len(0);
        } else if v["case"]["scenario"].as_str() == Some("collide") {
            vkit::seq::replay(&m2, &v["case"], rep);
        } else {
            vkit::seq::replay(&m, &v["case"], rep);
        }
        return;
    }
    bfs(&m, depth, if quick { 4000 } else { 200_000 }, args, rep);
    let before = rep.violations.len();
    bfs(&m2, depth2, if quick { 4000 } else { 200_000 }, args, rep);
    for v in rep.violations.iter_mut().skip(before) {
        v.case["scenario"] = json!("collide");
        v.signature = format!("{}[id-collision]", v.signature);
    }
    // third scenario: the first one with index files that count as large (prune rebuilds an index
    // file of fewer than 10 000 blobs merely because it is small; with the threshold at 1 only
    // index files which really change are rewritten, as in a repository of realistic size)
    let before = rep.violations.len();
    rustic_core::verif::limits::set_min_index_len(1);
    let mut rep3 = Report::new(args);
    bfs(&m, depth, if quick { 4000 } else { 200_000 }, args, &mut rep3);
    rustic_core::verif::limits::set_min_index_len(0);
    rep.count("large_index_executions", rep3.get("executions"));
    for (k, v) in &rep3.counts {
        if k.starts_with("todo:") {
            rep.count(&format!("large_index_{k}"), *v);
        }
    }
    for c in rep3.caps_hit.drain(..) {
        rep.cap(c);
    }
    for m in rep3.machinery_errors.drain(..) {
        rep.machinery(m);
    }
    for v in rep3.violations.drain(..) {
        rep.violations.push(v);
    }
    for v in rep.violations.iter_mut().skip(before) {
        v.case["scenario"] = json!("large-index-files");
        v.signature = format!("{}[large-index-files]", v.signature);
    }
}
