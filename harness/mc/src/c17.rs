//! C17 — the in-memory index answers exactly what the index files say.
//! ENUM through `verif::index_from`: all small collections of index files against a map model.

use std::{collections::BTreeMap, num::NonZeroU32};

use rustic_core::{
    BlobId, DataId, FileType, TreeId,
    repofile::{BlobType, IndexBlob, IndexFile, IndexPack},
    verif::{VIndexMode, index_from},
};
use serde_json::{Value, json};
use vkit::{
    decode::{id_of, seal_json},
    rep::{Env, base_config},
    report::{Args, Report},
};

/// one pack listing: (pack no 0..3, type, blob ids as indices 0..3 in order, marked)
#[derive(Clone, Debug, PartialEq, Eq, Hash)]
struct Listing {
    pack: usize,
    tree: bool,
    blobs: Vec<usize>,
    marked: bool,
}

fn blob_id(i: usize) -> BlobId {
    let b = [0xaau8, 0xbb, 0xcc][i];
    format!("{b:02x}").repeat(32).parse().unwrap()
}

fn pack_id(i: usize) -> rustic_core::repofile::PackId {
    format!("{:02x}", i + 1).repeat(32).parse().unwrap()
}

fn index_pack(l: &Listing, listing_no: usize) -> IndexPack {
    let mut blobs = Vec::new();
    let mut off = 0u32;
    for (pos, b) in l.blobs.iter().enumerate() {
        // lengths identify (listing, position): the model can tell which listing was returned
        let length = 40 + (listing_no * 8 + pos) as u32;
        // `BlobLocation` cannot be named from outside the crate: build the entry from its JSON form
        let ib: IndexBlob = serde_json::from_value(json!({
            "id": blob_id(*b).to_hex().as_str(),
            "type": if l.tree { "tree" } else { "data" },
            "offset": off,
            "length": length,
            "uncompressed_length": (pos % 2 == 1).then(|| 1000 + length),
        }))
        .expect("index blob");
        blobs.push(ib);
        off += length;
    }
    IndexPack {
        id: pack_id(l.pack),
        blobs,
        time: None,
        size: None,
    }
}

#[derive(Clone, Debug)]
struct Case {
    /// listings per index file
    files: Vec<Vec<Listing>>,
}

impl Case {
    fn json(&self) -> Value {
        json!(self.files.iter().map(|f| f.iter().map(|l| json!({"pack": l.pack, "type": if l.tree {"tree"} else {"data"}, "blobs": l.blobs, "marked": l.marked})).collect::<Vec<_>>()).collect::<Vec<_>>())
    }
    fn from_json(v: &Value) -> Self {
        Self {
            files: v.as_array().unwrap().iter().map(|f| f.as_array().unwrap().iter().map(|l| Listing {
                pack: l["pack"].as_u64().unwrap() as usize,
                tree: l["type"].as_str() == Some("tree"),
                blobs: l["blobs"].as_array().unwrap().iter().map(|x| x.as_u64().unwrap() as usize).collect(),
                marked: l["marked"].as_bool().unwrap(),
            }).collect()).collect(),
        }
    }
    fn index_files(&self) -> Vec<IndexFile> {
        let mut no = 0usize;
        self.files
            .iter()
            .map(|f| {
                let mut file = IndexFile::default();
                for l in f {
                    let p = index_pack(l, no);
                    no += 1;
                    if l.marked {
                        file.packs_to_delete.push(p);
                    } else {
                        file.packs.push(p);
                    }
                }
                file
            })
            .collect()
    }
}

/// model: (type, blob) -> listed (pack, offset, length, uncompressed) in unmarked packs
type Model = BTreeMap<(bool, usize), Vec<(usize, u32, u32, Option<u32>)>>;

fn model(files: &[IndexFile]) -> (Model, [u64; 2], Vec<(String, Vec<(String, u32, u32)>)>) {
    let mut m: Model = BTreeMap::new();
    let mut sizes = [0u64; 2]; // [tree, data]
    let mut packs = Vec::new();
    for f in files {
        for p in &f.packs {
            // pack size = 4 + 32 + sum(blob length + header entry length 37/41); empty packs count as data
            let mut size = 36u64;
            let mut tree = false;
            let mut bl = Vec::new();
            for (i, b) in p.blobs.iter().enumerate() {
                if i == 0 {
                    tree = b.tpe == BlobType::Tree;
                }
                size += u64::from(b.location.length) + if b.location.uncompressed_length.is_some() { 41 } else { 37 };
                let bi = (0..3).find(|i| blob_id(*i) == b.id).unwrap();
                let pi = (0..3).find(|i| pack_id(*i) == p.id).unwrap();
                m.entry((b.tpe == BlobType::Tree, bi)).or_default().push((
                    pi,
                    b.location.offset,
                    b.location.length,
                    b.location.uncompressed_length.map(NonZeroU32::get),
                ));
                bl.push((b.id.to_hex().to_string(), b.location.offset, b.location.length));
            }
            sizes[usize::from(!tree)] += size;
            bl.sort();
            packs.push((p.id.to_hex().to_string(), bl));
        }
    }
    packs.sort();
    (m, sizes, packs)
}

fn check_case(c: &Case) -> Result<(), (String, String)> {
    let (m, sizes, mpacks) = model(&c.index_files());
    for (mode, mname) in [(VIndexMode::Full, "full"), (VIndexMode::DataIds, "data-ids"), (VIndexMode::OnlyTrees, "only-trees")] {
        let idx = index_from(c.index_files(), mode);
        for tree in [true, false] {
            let tpe = if tree { BlobType::Tree } else { BlobType::Data };
            for b in 0..3 {
                let listed = m.get(&(tree, b)).cloned().unwrap_or_default();
                let retains_presence = tree || mode != VIndexMode::OnlyTrees;
                let retains_entries = tree || mode == VIndexMode::Full;
                let has = idx.has(tpe, &blob_id(b));
                let expect_has = retains_presence && !listed.is_empty();
                if has != expect_has {
                    return Err((format!("C17/has/{mname}"), format!("has({tpe},{b}) = {has}, listings in unmarked packs: {listed:?}")));
                }
                let got = idx.get_id(tpe, &blob_id(b));
                match (&got, retains_entries && !listed.is_empty()) {
                    (None, false) => {}
                    (Some(e), true) => {
                        let pi = (0..3).find(|i| pack_id(*i) == e.pack).unwrap_or(99);
                        let t = (pi, e.location.offset, e.location.length, e.location.uncompressed_length.map(NonZeroU32::get));
                        if !listed.contains(&t) {
                            return Err((format!("C17/get_id/{mname}"), format!("get_id({tpe},{b}) = {t:?} which is none of the listings {listed:?}")));
                        }
                    }
                    (g, e) => {
                        return Err((format!("C17/get_id/{mname}"), format!("get_id({tpe},{b}) = {g:?}, expected some: {e}; listings {listed:?}")));
                    }
                }
            }
            let ts = idx.total_size(tpe);
            if ts != sizes[usize::from(!tree)] {
                return Err((format!("C17/total_size/{mname}"), format!("total_size({tpe}) = {ts}, sum of listed pack sizes = {}", sizes[usize::from(!tree)])));
            }
        }
        if mode == VIndexMode::Full {
            let mut got: Vec<(String, Vec<(String, u32, u32)>)> = idx
                .into_packs()
                .into_iter()
                .map(|p| {
                    let mut bl: Vec<_> = p.blobs.iter().map(|b| (b.id.to_hex().to_string(), b.location.offset, b.location.length)).collect();
                    bl.sort();
                    (p.id.to_hex().to_string(), bl)
                })
                .collect();
            got.sort();
            if got != mpacks {
                return Err(("C17/into_packs/full".into(), format!("iterating the index yields {got:?}, the files list {mpacks:?}")));
            }
        }
    }
    Ok(())
}

/// end-to-end: the same index files stored (independently encrypted) and loaded by a repository handle
fn check_end_to_end(c: &Case) -> Result<(), (String, String)> {
    let env = Env::single();
    _ = env.init_with(base_config(2)).map_err(|e| ("C17/e2e/init".to_string(), e.display_log()))?;
    let mut st = env.store();
    for (i, f) in c.index_files().iter().enumerate() {
        let data = seal_json(&env.raw, &serde_json::to_value(f).unwrap(), 100 + i as u64);
        st.put(FileType::Index, &id_of(&data), data.into());
    }
    env.set_store(st);
    let (m, _, _) = model(&c.index_files());
    let repo = env.open_full().map_err(|e| ("C17/e2e/open".to_string(), e.display_log()))?;
    for b in 0..3 {
        for tree in [true, false] {
            let listed = m.get(&(tree, b)).cloned().unwrap_or_default();
            let res = if tree {
                repo.get_index_entry(&TreeId::from(blob_id(b)))
            } else {
                repo.get_index_entry(&DataId::from(blob_id(b)))
            };
            match (res, listed.is_empty()) {
                (Err(_), true) => {}
                (Ok(e), false) => {
                    let pi = (0..3).find(|i| pack_id(*i) == e.pack).unwrap_or(99);
                    let t = (pi, e.location.offset, e.location.length, e.location.uncompressed_length.map(NonZeroU32::get));
                    if !listed.contains(&t) {
                        return Err(("C17/e2e/get_index_entry".into(), format!("({tree},{b}) -> {t:?} not in {listed:?}")));
                    }
                }
                (r, _) => return Err(("C17/e2e/get_index_entry".into(), format!("({tree},{b}) -> {:?} but listings {listed:?}", r.map(|e| e.pack)))),
            }
        }
    }
    Ok(())
}

fn contents(nblob: usize, with_dups: bool) -> Vec<Vec<usize>> {
    // all subsets (in ascending order) plus multisets with one id twice
    let mut v = Vec::new();
    for mask in 0..(1u32 << nblob) {
        v.push((0..nblob).filter(|i| mask & (1 << i) != 0).collect::<Vec<_>>());
    }
    if with_dups {
        v.push(vec![0, 0]);
        v.push(vec![0, 1, 0]);
        if nblob > 2 {
            v.push(vec![2, 0]); // unsorted order inside a pack
        }
    }
    v
}

pub fn run(args: &Args, rep: &mut Report) {
    rep.set_meta("rule", json!("every assignment of {absent | (type, blob multiset, marked?)} to packs P1..P3, every split of the listed packs over two index files, one pack optionally listed a second time; x 3 index modes x all 6 (type,id) queries + totals + iteration. Non-trivial = at least one blob is listed in an unmarked pack and at least one query must miss; distinct = distinct cases"));
    if let Some(p) = &args.replay {
        let v: Value = serde_json::from_str(&std::fs::read_to_string(p).unwrap()).unwrap();
        let c = Case::from_json(&v["case"]["files"]);
        rep.inc("cases");
        let r = if v["case"]["e2e"].as_bool() == Some(true) { check_end_to_end(&c) } else { check_case(&c) };
        if let Err((sig, msg)) = r {
            rep.violation(sig, msg, v["case"].clone());
        }
        return;
    }
    let quick = args.quick();
    let nblob = 3;
    let conts = contents(nblob, true);
    // per pack: None or (tree?, content, marked?)
    let mut per_pack: Vec<Option<(bool, Vec<usize>, bool)>> = vec![None];
    for tree in [true, false] {
        for c in &conts {
            for marked in [false, true] {
                per_pack.push(Some((tree, c.clone(), marked)));
            }
        }
    }
    let n = per_pack.len();
    rep.set_meta("bounds", json!(format!("3 packs x {n} pack configurations each ({} blob multisets over {nblob} ids x 2 types x marked/unmarked + absent) x all file splits x optional duplicate listing", conts.len())));
    let mut idx = 0usize;
    for a in 0..n {
        for b in 0..n {
            for c3 in 0..n {
                idx += 1;
                if !args.mine(idx) {
                    continue;
                }
                if idx % 256 == 0 && rep.over_budget() {
                    return;
                }
                let listings: Vec<Listing> = [a, b, c3]
                    .iter()
                    .enumerate()
                    .filter_map(|(pi, ci)| per_pack[*ci].clone().map(|(tree, blobs, marked)| Listing { pack: pi, tree, blobs, marked }))
                    .collect();
                let k = listings.len();
                // every split over two files (file 2 may stay empty), duplicate listing of the first pack in file 2
                for split in 0..(1u32 << k) {
                    // symmetric splits are equivalent: fix the first listing in file 1
                    if k > 0 && split & 1 == 1 {
                        continue;
                    }
                    // which listing is repeated in file 2 (quick: none or the first; thorough: any)
                    let dups: Vec<Option<usize>> = if quick { vec![None, Some(0)] } else { vec![None, Some(0), Some(1), Some(2)] };
                    for dupi in dups {
                        let dup = dupi.is_some();
                        if dupi.is_some_and(|d| d >= k) {
                            continue;
                        }
                        let mut f1 = Vec::new();
                        let mut f2 = Vec::new();
                        for (i, l) in listings.iter().enumerate() {
                            if split & (1 << i) == 0 { f1.push(l.clone()) } else { f2.push(l.clone()) }
                        }
                        if dup {
                            f2.push(listings[dupi.unwrap()].clone());
                        }
                        let case = Case { files: if f2.is_empty() { vec![f1] } else { vec![f1, f2] } };
                        rep.inc("cases");
                        let unmarked_blobs = listings.iter().filter(|l| !l.marked).map(|l| l.blobs.len()).sum::<usize>();
                        if unmarked_blobs > 0 && unmarked_blobs < 6 {
                            _ = rep.distinct("nontrivial", &(a, b, c3, split, dupi));
                        }
                        if rep.samples.len() < 2 && k == 3 && dup {
                            rep.sample(json!({"files": case.json()}));
                        }
                        if let Err((sig, msg)) = check_case(&case) {
                            if !rep.has_violation(&sig) {
                                rep.violation(sig, msg, json!({"files": case.json()}));
                            } else {
                                rep.inc("violations_raw");
                            }
                        }
                        // end-to-end slice: two packs, no third
                        if c3 == 0 && !dup && (quick && a % 3 == 1 || !quick && a % 2 == 1) {
                            rep.inc("cases");
                            rep.inc("end_to_end_cases");
                            if let Err((sig, msg)) = check_end_to_end(&case) {
                                if !rep.has_violation(&sig) {
                                    rep.violation(sig, msg, json!({"files": case.json(), "e2e": true}));
                                }
                            }
                        }
                    }
                }
            }
        }
    }
}
