//! C06 — chunking is a lossless, bounded, content-defined partition.
//! ENUM through `rustic_core::verif::chunk_iter`: parameter grid x stream families x every length
//! x fragmentation deviations, against an independent bit-serial Rabin reference.

use std::{
    collections::HashMap,
    panic::{AssertUnwindSafe, catch_unwind},
};

use bytes::Bytes;
use rustic_core::repofile::{Chunker, ConfigFile};
use serde_json::{Value, json};
use vkit::{
    rep::base_config,
    report::{Args, Report},
    source::{Frag, ScriptReader},
};

/// three polynomials of degree 53 (what `init` generates) and one of degree 55 (a configuration made
/// elsewhere; the fingerprint arithmetic is defined for every degree below 57)
const POLYS: [u64; 4] = [0x003D_A335_8B4D_C173, 0x0025_0e86_8d5e_a8d9, 0x003e_d61b_8db8_e8ab, 0x00ae_2120_8265_71df];

#[derive(Clone, Debug, PartialEq, Eq, Hash)]
pub struct Params {
    pub fixed: bool,
    pub poly: u64,
    pub size: usize,
    pub min: usize,
    pub max: usize,
}

impl Params {
    /// the configuration as a user obtains it: through `ConfigOptions::apply`
    fn config(&self) -> Result<ConfigFile, String> {
        let mut c = base_config(2);
        c.chunker_polynomial = format!("{:x}", self.poly);
        let mut o = rustic_core::ConfigOptions::default()
            .set_chunker(if self.fixed { Chunker::FixedSize } else { Chunker::Rabin })
            .set_chunk_size(bytesize::ByteSize(self.size as u64));
        if !self.fixed {
            o = o
                .set_chunk_min_size(bytesize::ByteSize(self.min as u64))
                .set_chunk_max_size(bytesize::ByteSize(self.max as u64));
        } else {
            if self.min != 0 {
                o = o.set_chunk_min_size(bytesize::ByteSize(self.min as u64));
            }
            if self.max != 0 {
                o = o.set_chunk_max_size(bytesize::ByteSize(self.max as u64));
            }
        }
        match catch_unwind(AssertUnwindSafe(|| o.apply(&mut c))) {
            Ok(Ok(())) => Ok(c),
            Ok(Err(e)) => Err(format!("refused: {}", e.display_log())),
            Err(_) => Err("panic".to_string()),
        }
    }
    fn json(&self) -> Value {
        json!({"fixed": self.fixed, "poly": format!("{:x}", self.poly), "size": self.size, "min": self.min, "max": self.max})
    }
    fn from_json(v: &Value) -> Self {
        Self {
            fixed: v["fixed"].as_bool().unwrap_or(false),
            poly: u64::from_str_radix(v["poly"].as_str().unwrap_or("0"), 16).unwrap_or(0),
            size: v["size"].as_u64().unwrap_or(0) as usize,
            min: v["min"].as_u64().unwrap_or(0) as usize,
            max: v["max"].as_u64().unwrap_or(0) as usize,
        }
    }
}

/// degree of a polynomial over GF(2)
fn degree(p: u64) -> u32 {
    63 - p.leading_zeros()
}

/// independent bit-serial fingerprint: (sum w_i x^(8(n-1-i))) mod P
fn fingerprint(window: &[u8], poly: u64) -> u64 {
    let d = degree(poly);
    let mut h: u64 = 0;
    for &b in window {
        for bit in (0..8).rev() {
            h = (h << 1) | u64::from((b >> bit) & 1);
            if (h >> d) & 1 == 1 {
                h ^= poly;
            }
        }
    }
    h
}

/// reference chunk lengths
pub fn ref_chunks(data: &[u8], p: &Params, memo: &mut HashMap<(usize, usize), u64>) -> Vec<usize> {
    let mut out = Vec::new();
    let mut s = 0usize;
    let n = data.len();
    if p.fixed {
        if p.size == 0 {
            // no partition into zero-sized chunks exists; any answer is compared on
            // losslessness first
            return if n > 0 { vec![n] } else { vec![] };
        }
        while s < n {
            let l = p.size.min(n - s);
            out.push(l);
            s += l;
        }
        return out;
    }
    let mask = (p.size as u64).wrapping_sub(1);
    while s < n {
        if n - s < p.min {
            out.push(n - s);
            break;
        }
        let mut l = p.min;
        loop {
            if l >= p.max {
                break;
            }
            let e = s + l;
            let ws = e.saturating_sub(64).max(s);
            let fp = *memo
                .entry((ws, e))
                .or_insert_with(|| fingerprint(&data[ws..e], p.poly));
            if fp & mask == 0 {
                break;
            }
            if e == n {
                break;
            }
            l += 1;
        }
        if l == 0 {
            // min = 0 and an immediate cut would never make progress; the property requires a
            // partition, so a zero-length chunk is not a valid answer: extend by one byte
            l = 1;
        }
        out.push(l);
        s += l;
    }
    out
}

#[derive(Debug)]
enum Outcome {
    Chunks(Vec<Vec<u8>>),
    Err(String),
    Panic(String),
    Refused(String),
}

thread_local! {
    static CALLS: std::sync::Arc<std::sync::atomic::AtomicUsize> = std::sync::Arc::new(std::sync::atomic::AtomicUsize::new(0));
}

fn last_calls() -> usize {
    CALLS.with(|c| c.load(std::sync::atomic::Ordering::Relaxed))
}

fn run_impl(p: &Params, data: &Bytes, frag: &Frag, hint: usize) -> Outcome {
    let cfg = match p.config() {
        Ok(c) => c,
        Err(e) if e == "panic" => return Outcome::Panic("ConfigOptions::apply panicked: attempt to subtract with overflow".into()),
        Err(e) => return Outcome::Refused(e),
    };
    let reader = CALLS.with(|c| {
        c.store(0, std::sync::atomic::Ordering::Relaxed);
        ScriptReader::new(data.clone(), frag.clone()).counted(c)
    });
    let r = catch_unwind(AssertUnwindSafe(|| {
        let it = match rustic_core::verif::chunk_iter(&cfg, reader, hint) {
            Ok(it) => it,
            Err(e) => return Outcome::Refused(e.display_log()),
        };
        let mut chunks = Vec::new();
        let mut total = 0usize;
        for c in it {
            match c {
                Ok(c) => {
                    total += c.len();
                    chunks.push(c);
                    if chunks.len() > data.len() + 2 || total > data.len() + 2 {
                        return Outcome::Err("chunker does not terminate / yields more than the stream".into());
                    }
                }
                Err(e) => return Outcome::Err(e.display_log()),
            }
        }
        Outcome::Chunks(chunks)
    }));
    match r {
        Ok(o) => o,
        Err(e) => {
            let msg = e
                .downcast_ref::<String>()
                .cloned()
                .or_else(|| e.downcast_ref::<&str>().map(|s| (*s).to_string()))
                .unwrap_or_else(|| "panic".into());
            Outcome::Panic(msg)
        }
    }
}

fn family(name: &str, n: usize, p: &Params) -> Vec<u8> {
    match name {
        "zero" => vec![0u8; n],
        "ff" => vec![0xff; n],
        "p3" => (0..n).map(|i| [1u8, 2, 3][i % 3]).collect(),
        "p7" => (0..n).map(|i| [9u8, 0, 200, 13, 13, 77, 255][i % 7]).collect(),
        "lcg0" | "lcg1" | "lcg2" | "lcg3" => {
            let seed: u64 = name[3..].parse().unwrap();
            let mut x = 0x9E37_79B9_7F4A_7C15u64 ^ (seed.wrapping_mul(0xD1B5_4A32_D192_ED03));
            (0..n)
                .map(|_| {
                    x = x.wrapping_mul(6364136223846793005).wrapping_add(1442695040888963407);
                    (x >> 33) as u8
                })
                .collect()
        }
        "dense" => dense(n, p),
        _ => unreachable!(),
    }
}

/// adversarially boundary-dense: greedily choose each byte so that the 64-byte window
/// fingerprint's low bits vanish as often as possible
fn dense(n: usize, p: &Params) -> Vec<u8> {
    let mask = (p.size as u64).wrapping_sub(1);
    let mut v: Vec<u8> = Vec::with_capacity(n);
    let mut x = 12345u64;
    for i in 0..n {
        let ws = (i + 1).saturating_sub(64);
        let mut best = None;
        // try a handful of candidate bytes
        for t in 0..16u64 {
            x = x.wrapping_mul(6364136223846793005).wrapping_add(1442695040888963407);
            let b = ((x >> 40) as u8).wrapping_add(t as u8);
            v.push(b);
            let fp = fingerprint(&v[ws..], p.poly);
            _ = v.pop();
            if fp & mask == 0 {
                best = Some(b);
                break;
            }
        }
        v.push(best.unwrap_or((x >> 20) as u8));
    }
    v
}

const FAMILIES: [&str; 9] = ["zero", "ff", "p3", "p7", "lcg0", "lcg1", "lcg2", "lcg3", "dense"];

fn case_json(p: &Params, fam: &str, len: usize, frag: &Frag, hint: usize) -> Value {
    json!({"params": p.json(), "family": fam, "len": len, "frag": serde_json::to_value(frag).unwrap(), "hint": hint})
}

/// check one (params, stream, fragmentation); returns violation (signature, message)
fn check_one(
    p: &Params,
    data: &Bytes,
    frag: &Frag,
    hint: usize,
    expect: &[usize],
) -> Result<usize, (String, String)> {
    let kind = if p.fixed { "fixed" } else { "rabin" };
    match run_impl(p, data, frag, hint) {
        Outcome::Refused(_) => Err((format!("C06/refused-later/{kind}"), "parameters accepted once, refused now".into())),
        Outcome::Panic(m) => {
            let class = if m.contains("subtract with overflow") {
                "subtract-overflow"
            } else if m.contains("out of range") || m.contains("slice index") {
                "slice-index"
            } else {
                "other"
            };
            Err((format!("C06/panic/{kind}/{class}"), format!("panic: {m}")))
        }
        Outcome::Err(e) => Err((format!("C06/error/{kind}"), e)),
        Outcome::Chunks(chunks) => {
            let cat: Vec<u8> = chunks.iter().flatten().copied().collect();
            if cat != data[..] {
                return Err((
                    format!("C06/lossless/{kind}"),
                    format!("concatenation of {} chunks has {} bytes, stream has {}", chunks.len(), cat.len(), data.len()),
                ));
            }
            let lens: Vec<usize> = chunks.iter().map(Vec::len).collect();
            for (i, l) in lens.iter().enumerate() {
                let last = i + 1 == lens.len();
                let (lo, hi) = if p.fixed { (p.size, p.size) } else { (p.min, p.max) };
                if *l == 0 || *l > hi || (!last && *l < lo) {
                    return Err((
                        format!("C06/bounds/{kind}"),
                        format!("chunk {i} of {} has length {l}, bounds [{lo},{hi}] lens={lens:?}", lens.len()),
                    ));
                }
            }
            if lens != expect {
                let sig = if *frag == Frag::Full { "cutpoints" } else { "fragmentation" };
                return Err((
                    format!("C06/{sig}/{kind}"),
                    format!("chunk lengths {lens:?} but reference (full reads) gives {expect:?}"),
                ));
            }
            Ok(lens.len())
        }
    }
}

fn params_grid(thorough: bool) -> Vec<Params> {
    let mut v = Vec::new();
    let sizes: &[usize] = if thorough { &[0, 1, 2, 64, 128, 256, 4096] } else { &[0, 1, 64, 128, 4096] };
    let quick_mins_4096 = [0usize, 63, 64, 512, 4095, 4096];
    for (pi, &poly) in POLYS.iter().enumerate() {
        for &size in sizes {
            let mut mins = vec![0usize, 1, 63, 64, 65, 100, size];
            if size >= 2 {
                mins.push(size / 2);
            }
            if size == 4096 {
                mins.push(4095);
                mins.push(512);
            }
            mins.sort_unstable();
            mins.dedup();
            for &min in &mins {
                for max in [size, size + 1, 2 * size, 4 * size] {
                    // other polynomials only with a subset in the quick tier
                    if pi > 0 && !thorough && !(size == 64 && (min == 64 || min == 32) && max == 256) {
                        continue;
                    }
                    if !thorough && size == 4096 && (!quick_mins_4096.contains(&min) || max == size + 1) {
                        continue;
                    }
                    v.push(Params { fixed: false, poly, size, min, max });
                }
            }
        }
    }
    for size in [0usize, 1, 2, 7, 4096, 8000] {
        v.push(Params { fixed: true, poly: POLYS[0], size, min: 0, max: 0 });
    }
    // the minimum and maximum chunk size are documented to have no effect on the fixed-size
    // chunker: stale values (smaller / larger than the chunk size) left in the configuration
    for (size, min, max) in [(7usize, 0usize, 3usize), (7, 20, 0), (100, 10, 50), (4096, 0, 1024), (4096, 8192, 16384)] {
        v.push(Params { fixed: true, poly: POLYS[0], size, min, max });
    }
    v
}

fn lengths_for(p: &Params, thorough: bool) -> Vec<usize> {
    let hi = if p.fixed { p.size } else { p.max };
    let full = 3 * hi + 70;
    if full <= 900 || (thorough && full <= 2200) {
        (0..=full).collect()
    } else {
        let lo = if p.fixed { p.size } else { p.min };
        let mut v = vec![0usize, 1, 2, 63, 64, 65, 4095, 4096, 4097, 8191, 8192, 8193];
        for base in [lo, hi, 2 * lo, 2 * hi, lo + hi, 3 * hi, p.size, 2 * p.size] {
            for d in [-1i64, 0, 1, 17] {
                let x = base as i64 + d;
                if x >= 0 {
                    v.push(x as usize);
                }
            }
        }
        v.push(full);
        v.sort_unstable();
        v.dedup();
        v
    }
}

pub fn run(args: &Args, rep: &mut Report) {
    rep.set_meta("rule", json!("parameter grid (size x min x max x 3 polynomials, fixed sizes) x 9 stream families x every length 0..3*max+70 (boundary lengths for large params) x fragmentation {full, all-1-byte, strides, every single short read, every single Interrupted; pairs in thorough}; non-trivial = stream with >= 2 chunks; distinct = distinct (params, family, length)"));
    // silence panic backtraces of expected panics
    std::panic::set_hook(Box::new(|_| {}));
    if let Some(path) = &args.replay {
        let v: Value = serde_json::from_str(&std::fs::read_to_string(path).unwrap()).unwrap();
        let c = &v["case"];
        let p = Params::from_json(&c["params"]);
        let len = c["len"].as_u64().unwrap() as usize;
        let fam = FAMILIES.iter().find(|f| Some(**f) == c["family"].as_str()).unwrap();
        let frag: Frag = serde_json::from_value(c["frag"].clone()).unwrap();
        let hint = c["hint"].as_u64().unwrap_or(0) as usize;
        let data = Bytes::from(family(fam, len, &p));
        let expect = ref_chunks(&data, &p, &mut HashMap::new());
        rep.inc("cases");
        if let Err((sig, msg)) = check_one(&p, &data, &frag, hint, &expect) {
            rep.violation(sig, msg, c.clone());
        }
        return;
    }
    let thorough = !args.quick();
    let grid = params_grid(thorough);
    rep.set_meta("bounds", json!(format!("{} parameter sets; lengths 0..3*max+70 when <= {}", grid.len(), if thorough { 2200 } else { 900 })));
    let mut job = 0usize;
    for p in &grid {
        // accepted?
        let probe = run_impl(p, &Bytes::new(), &Frag::Full, 0);
        match probe {
            Outcome::Refused(_) => {
                rep.inc("params_refused");
                continue;
            }
            Outcome::Panic(m) => {
                rep.inc("cases");
                if args.mine(job) {
                    let class = if m.contains("subtract with overflow") { "subtract-overflow" } else { "other" };
                    rep.violation(
                        format!("C06/panic/params/{class}"),
                        format!("constructing the chunker panics: {m}"),
                        case_json(p, "zero", 0, &Frag::Full, 0),
                    );
                }
                job += 1;
                continue;
            }
            _ => {}
        }
        rep.inc("params_accepted");
        let lens = lengths_for(p, thorough);
        let maxlen = *lens.last().unwrap();
        for fam in FAMILIES {
            job += 1;
            if !args.mine(job) {
                continue;
            }
            if rep.over_budget() {
                return;
            }
            if fam == "dense" && (p.fixed || p.size < 2) {
                continue;
            }
            if std::env::var("C06_DEBUG").is_ok() {
                eprintln!("{:.1} C06 job {job} {:?} {fam}", rep.elapsed(), p);
            }
            let all = Bytes::from(family(fam, maxlen, p));
            let mut memo = HashMap::new();
            for &len in &lens {
                let data = all.slice(0..len);
                let expect = ref_chunks(&data, p, &mut memo);
                // baseline + fragmentation variants
                let mut frags = vec![Frag::Full, Frag::Stride(1)];
                let big = len > 3000;
                let lo = if p.fixed { p.size } else { p.min };
                let hi = if p.fixed { p.size } else { p.max };
                // lengths at which every single deviation is explored (all lengths in thorough)
                let near = |b: usize| len + 1 >= b && len <= b + 1;
                let boundary = len <= 2
                    || [lo, hi, lo + hi, 2 * hi, 3 * hi + 69, 64].iter().any(|b| near(*b))
                    || expect.iter().take(2).scan(0usize, |acc, l| { *acc += l; Some(*acc) }).any(near);
                if thorough || boundary {
                    for s in [2usize, 3, 7, 4095, 4096, 4097] {
                        if !big || s > 7 {
                            frags.push(Frag::Stride(s));
                        }
                    }
                }
                // single deviations at every read call of the baseline run
                if len > 0 && (thorough && !big || boundary) {
                    _ = run_impl(p, &data, &Frag::Full, len);
                    let ncalls = last_calls().min(if big { 24 } else { 64 });
                    rep.max("max_read_calls", ncalls as u64);
                    for i in 0..ncalls {
                        frags.push(Frag::ShortAt(i, 1));
                        frags.push(Frag::ShortAt(i, 7));
                        frags.push(Frag::InterruptAt(i));
                    }
                    if thorough && len < 400 {
                        for i in 0..ncalls.min(8) {
                            for j in (i + 1)..ncalls.min(9) {
                                frags.push(Frag::Two(Box::new(Frag::ShortAt(i, 1)), Box::new(Frag::InterruptAt(j))));
                                frags.push(Frag::Two(Box::new(Frag::ShortAt(i, 3)), Box::new(Frag::ShortAt(j, 1))));
                            }
                        }
                    }
                }
                let mut first = true;
                for frag in &frags {
                    for hint in if first && (thorough || boundary) { vec![0usize, len, len / 2] } else { vec![len] } {
                        rep.inc("cases");
                        match check_one(p, &data, frag, hint, &expect) {
                            Ok(n) => {
                                if n >= 2 && first {
                                    _ = rep.distinct("nontrivial", &(p, fam, len));
                                }
                                rep.max("max_chunks", n as u64);
                            }
                            Err((sig, msg)) => {
                                rep.violation(sig, msg, case_json(p, fam, len, frag, hint));
                            }
                        }
                    }
                    first = false;
                }
            }
            if rep.samples.len() < 3 && !p.fixed && p.size == 64 {
                let data = all.slice(0..300.min(maxlen));
                rep.sample(json!({"params": p.json(), "family": fam, "len": data.len(),
                    "reference_chunk_lengths": ref_chunks(&data, p, &mut memo)}));
            }
            // suffix resynchronisation: X = A||S, Y = B||S
            if !p.fixed && p.max <= 1024 && p.size >= 2 {
                let s = all.slice(0..maxlen.min(900));
                let prefixes: Vec<Vec<u8>> = vec![vec![], vec![1], vec![2], vec![1, 2], vec![9, 9, 9], vec![0; 70], vec![5; 131]];
                let cuts = |pre: &[u8]| -> Option<Vec<usize>> {
                    let mut d = pre.to_vec();
                    d.extend_from_slice(&s);
                    match run_impl(p, &Bytes::from(d), &Frag::Full, 0) {
                        Outcome::Chunks(c) => {
                            let mut pos = 0usize;
                            let mut out = Vec::new();
                            for ch in c {
                                pos += ch.len();
                                if pos >= pre.len() {
                                    out.push(pos - pre.len());
                                }
                            }
                            Some(out)
                        }
                        _ => None,
                    }
                };
                let all_cuts: Vec<Option<Vec<usize>>> = prefixes.iter().map(|p| cuts(p)).collect();
                for a in 0..prefixes.len() {
                    for b in (a + 1)..prefixes.len() {
                        if let (Some(ca), Some(cb)) = (&all_cuts[a], &all_cuts[b]) {
                            rep.inc("cases");
                            rep.inc("resync_pairs");
                            // first common cut strictly inside S (position > 0 counts from S start)
                            if let Some(first) = ca.iter().find(|x| cb.contains(x)) {
                                let ta: Vec<_> = ca.iter().filter(|x| *x >= first).collect();
                                let tb: Vec<_> = cb.iter().filter(|x| *x >= first).collect();
                                if ta != tb {
                                    rep.violation(
                                        "C06/resync/rabin",
                                        format!("after common cut {first}: cuts {ta:?} vs {tb:?}"),
                                        json!({"params": p.json(), "family": fam, "prefix_a": prefixes[a], "prefix_b": prefixes[b], "len": s.len(), "frag": "Full", "hint": 0}),
                                    );
                                }
                            }
                        }
                    }
                }
            }
        }
    }
}
