//! C14 — restore yields exactly the snapshot and never writes outside the target.
//! ENUM on tmpfs: snapshot x destination pre-state mutations x restore options x hostile names.

use std::{
    collections::BTreeMap,
    fs,
    os::unix::ffi::OsStrExt,
    panic::{AssertUnwindSafe, catch_unwind},
    path::{Path, PathBuf},
};

use rustic_core::{LocalDestination, LsOptions, RestoreOptions};
use serde::{Deserialize, Serialize};
use serde_json::{Value, json};
use vkit::{
    fsx::{FsTree, sandbox, set_mode, set_mtime, snapshot},
    rep::{Env, backup_with, bopts, tiny_config},
    report::{Args, Report},
    source::{Ent, Entry, MemSource},
};

use crate::{c02::T0, c13::lcg};

fn snap_tree(i: usize) -> Entry {
    let mut t = Entry::dir(T0);
    match i {
        0 => {
            t.insert("a", Entry::file(lcg(1, 700), T0 + 1));
            t.insert("e", Entry::file(Vec::<u8>::new(), T0 + 2));
            t.insert("d/x", Entry::file(lcg(2, 100), T0 + 3));
            t.insert("d/n/y", Entry::file(lcg(3, 50), T0 + 4));
            t.insert("l", Entry::symlink(b"a".to_vec(), T0 + 5));
            for n in ["h1", "h2"] {
                let mut h = Entry::file(lcg(4, 120), T0 + 6);
                h.meta.inode = 77;
                h.meta.dev = 5;
                h.meta.links = 2;
                t.insert(n, h);
            }
            let mut x = Entry::file(lcg(5, 30), T0 + 7);
            x.meta.mode = Some(0o755);
            t.insert("script", x);
            // set-group-id executable owned by root: ownership handling (chown) must not strip the bit
            let mut g = Entry::file(lcg(6, 30), T0 + 8);
            g.meta.mode = Some(0o2755);
            g.meta.uid = Some(0);
            g.meta.gid = Some(0);
            // a recorded access time which differs from the modification time
            g.meta.atime = Some(1_000_000_000_000_000_000);
            t.insert("sgid", g);
        }
        1 => {
            t.insert("only", Entry::file(vec![0u8; 3000], T0 + 1)); // all zero: sparse restore
            t.insert("z/holes", Entry::file([lcg(7, 300), vec![0u8; 600], lcg(8, 200)].concat(), T0 + 2));
            t.insert("emptydir", Entry::dir(T0 + 3));
        }
        _ => {
            // two unrelated files which claim a link count of 2 and share an inode number while no
            // device id was recorded (0): they are not hardlinks of each other
            for (n, seed) in [("u1", 11u64), ("u2", 12)] {
                let mut u = Entry::file(lcg(seed, 80), T0 + 5);
                u.meta.inode = 99;
                u.meta.dev = 0;
                u.meta.links = 2;
                t.insert(n, u);
            }
            t.insert("a", Entry::file(lcg(9, 64), T0 + 1));
            t.insert("b", Entry::symlink(b"/nonexistent/target".to_vec(), T0 + 2));
            t.insert("c/d/e/f", Entry::file(lcg(10, 10), T0 + 3));
        }
    }
    t
}

#[derive(Clone, Debug, Serialize, Deserialize, PartialEq, Eq, Hash)]
pub enum Mutation {
    Absent,
    SameSizeMtimeOtherBytes,
    SameSizeOtherMtime,
    Truncated,
    Longer,
    WrongTypeFile,
    WrongTypeDir,
    WrongTypeSymlink,
    /// a symlink pointing to a file outside of the destination sits where the snapshot has a file
    SymlinkToOutside,
    ModeChanged,
    /// per-chunk damage of a multi-chunk file: one byte in the middle of every chunk whose bit is
    /// set is changed (the first five chunks are addressed); `tail` -1 = the last 10 bytes are cut
    /// off, +1 = 16 bytes are appended; the mtime differs so that the content is compared
    Chunks { mask: u32, tail: i8 },
}

/// chunk lengths of `data` under the chunker of the repositories used here (tiny rabin 64/64/256)
fn chunk_lens(data: &[u8]) -> Vec<usize> {
    let p = crate::c06::Params { fixed: false, poly: u64::from_str_radix(vkit::rep::POLY, 16).unwrap(), size: 64, min: 64, max: 256 };
    crate::c06::ref_chunks(data, &p, &mut std::collections::HashMap::new())
}

#[derive(Clone, Debug, Serialize, Deserialize, PartialEq, Eq, Hash)]
pub enum Extra {
    FileAtRoot,
    FileNested,
    DirNonEmpty,
    Symlink,
    /// an extra symlink to a directory outside of the destination; sorts before the other extras
    SymlinkToDirOutside,
    /// an extra symlink to a directory of the destination (`..`), first entry of its directory
    SymlinkToDirInside,
}

#[derive(Clone, Debug, Serialize, Deserialize)]
pub struct Case {
    snap: usize,
    /// (path relative to the snapshot root dir `r`, mutation)
    muts: Vec<(String, Mutation)>,
    extras: Vec<Extra>,
    delete: bool,
    verify_existing: bool,
    sparse: bool,
    no_ownership: bool,
}

/// materialise the source tree below `root`
pub fn materialise(root: &Path, t: &Entry) {
    let mut all = Vec::new();
    t.walk(b"", &mut all);
    let mut links: BTreeMap<(u64, u64), PathBuf> = BTreeMap::new();
    for (p, e) in &all {
        let path = root.join(std::ffi::OsStr::from_bytes(p));
        match &e.ent {
            Ent::Dir(_) => fs::create_dir_all(&path).unwrap(),
            Ent::File(d) => {
                // (hardlink partners are identified by device and inode; device 0 = not recorded)
                if e.meta.links > 1 && e.meta.dev != 0 && e.meta.inode != 0 {
                    if let Some(first) = links.get(&(e.meta.dev, e.meta.inode)) {
                        fs::hard_link(first, &path).unwrap();
                        continue;
                    }
                    _ = links.insert((e.meta.dev, e.meta.inode), path.clone());
                }
                fs::write(&path, d).unwrap();
            }
            Ent::Symlink(tg) => std::os::unix::fs::symlink(std::ffi::OsStr::from_bytes(tg), &path).unwrap(),
        }
    }
    // modes and times, deepest first
    for (p, e) in all.iter().rev() {
        let path = root.join(std::ffi::OsStr::from_bytes(p));
        if !matches!(e.ent, Ent::Symlink(_)) {
            if let Some(m) = e.meta.mode {
                set_mode(&path, m);
            }
        }
        if let Some(mt) = e.meta.mtime {
            set_mtime(&path, mt);
        }
    }
}

fn apply_mutation(dest_r: &Path, rel: &str, e: &Entry, m: &Mutation) {
    let path = dest_r.join(rel);
    let remove = |p: &Path| {
        if let Ok(md) = fs::symlink_metadata(p) {
            if md.is_dir() {
                _ = fs::remove_dir_all(p);
            } else {
                _ = fs::remove_file(p);
            }
        }
    };
    let mtime = e.meta.mtime.unwrap_or(0);
    match m {
        Mutation::Absent => remove(&path),
        Mutation::SameSizeMtimeOtherBytes | Mutation::SameSizeOtherMtime => {
            if let Ent::File(d) = &e.ent {
                let mut v = d.to_vec();
                if let Some(b) = v.first_mut() {
                    *b = b.wrapping_add(1);
                }
                remove(&path);
                fs::write(&path, v).unwrap();
                set_mtime(&path, if *m == Mutation::SameSizeMtimeOtherBytes { mtime } else { mtime + 5_000_000_000 });
            }
        }
        Mutation::Truncated => {
            if let Ent::File(d) = &e.ent {
                remove(&path);
                fs::write(&path, &d[..d.len() / 2]).unwrap();
                set_mtime(&path, mtime);
            }
        }
        Mutation::Longer => {
            if let Ent::File(d) = &e.ent {
                let mut v = d.to_vec();
                v.extend_from_slice(b"TRAILING GARBAGE");
                remove(&path);
                fs::write(&path, v).unwrap();
                set_mtime(&path, mtime);
            }
        }
        Mutation::WrongTypeFile => {
            remove(&path);
            fs::write(&path, b"i am a file").unwrap();
        }
        Mutation::WrongTypeDir => {
            remove(&path);
            fs::create_dir_all(path.join("inner")).unwrap();
            fs::write(path.join("inner/file"), b"content in the way").unwrap();
        }
        Mutation::WrongTypeSymlink => {
            remove(&path);
            std::os::unix::fs::symlink("somewhere", &path).unwrap();
        }
        Mutation::SymlinkToOutside => {
            remove(&path);
            // dest_r = <case>/dest/r  ->  <case>/outside/sentinel
            let target = dest_r.parent().unwrap().parent().unwrap().join("outside/sentinel");
            std::os::unix::fs::symlink(target, &path).unwrap();
        }
        Mutation::ModeChanged => {
            if !matches!(e.ent, Ent::Symlink(_)) {
                set_mode(&path, 0o600);
            }
        }
        Mutation::Chunks { mask, tail } => {
            if let Ent::File(d) = &e.ent {
                let mut v = d.to_vec();
                let mut start = 0usize;
                for (k, l) in chunk_lens(d).into_iter().enumerate() {
                    if k < 5 && mask >> k & 1 == 1 {
                        v[start + l / 2] = v[start + l / 2].wrapping_add(1);
                    }
                    start += l;
                }
                match tail {
                    -1 => v.truncate(v.len().saturating_sub(10)),
                    1 => v.extend_from_slice(b"TRAILING GARBAGE"),
                    _ => {}
                }
                remove(&path);
                fs::write(&path, v).unwrap();
                set_mtime(&path, mtime + 5_000_000_000);
            }
        }
    }
}

fn applicable(e: &Entry, m: &Mutation) -> bool {
    match m {
        Mutation::Absent | Mutation::ModeChanged => true,
        Mutation::SameSizeMtimeOtherBytes | Mutation::SameSizeOtherMtime | Mutation::Truncated => matches!(&e.ent, Ent::File(d) if !d.is_empty()),
        Mutation::Longer => matches!(e.ent, Ent::File(_)),
        Mutation::WrongTypeFile => !matches!(e.ent, Ent::File(_)),
        Mutation::WrongTypeDir => !matches!(e.ent, Ent::Dir(_)),
        Mutation::WrongTypeSymlink => !matches!(e.ent, Ent::Symlink(_)),
        Mutation::SymlinkToOutside => matches!(e.ent, Ent::File(_)),
        Mutation::Chunks { .. } => matches!(&e.ent, Ent::File(d) if chunk_lens(d).len() >= 2),
    }
}

const MUTATIONS: [Mutation; 10] = [
    Mutation::SymlinkToOutside,
    Mutation::Absent,
    Mutation::SameSizeMtimeOtherBytes,
    Mutation::SameSizeOtherMtime,
    Mutation::Truncated,
    Mutation::Longer,
    Mutation::WrongTypeFile,
    Mutation::WrongTypeDir,
    Mutation::WrongTypeSymlink,
    Mutation::ModeChanged,
];

fn extra_paths(x: &Extra) -> (&'static str, &'static str) {
    match x {
        Extra::FileAtRoot => ("r/zz_extra_file", "file"),
        Extra::FileNested => ("r/d/zz_extra_nested", "file"),
        Extra::DirNonEmpty => ("r/zz_extra_dir", "dir"),
        Extra::Symlink => ("r/zz_extra_link", "symlink"),
        Extra::SymlinkToDirOutside => ("r/zy_extra_link_to_outside_dir", "symlink"),
        Extra::SymlinkToDirInside => ("r/d/a_extra_link_up", "symlink"),
    }
}

fn plant_extra(dest: &Path, x: &Extra) {
    let (p, kind) = extra_paths(x);
    let path = dest.join(p);
    if let Some(par) = path.parent() {
        if !par.is_dir() {
            return;
        }
    }
    match kind {
        "file" => fs::write(&path, b"extra content").unwrap(),
        "dir" => {
            fs::create_dir_all(path.join("sub")).unwrap();
            fs::write(path.join("sub/f"), b"extra nested content").unwrap();
        }
        _ => match x {
            // dest = <case>/dest  ->  <case>/outside (a directory)
            Extra::SymlinkToDirOutside => std::os::unix::fs::symlink(dest.parent().unwrap().join("outside"), &path).unwrap(),
            Extra::SymlinkToDirInside => std::os::unix::fs::symlink("..", &path).unwrap(),
            _ => std::os::unix::fs::symlink("a", &path).unwrap(),
        },
    }
}

struct Prepared {
    env: Env,
    trees: Vec<Entry>,
}

fn prepare() -> Prepared {
    let env = Env::single();
    _ = env.init_with(tiny_config(2)).expect("init");
    let mut trees = Vec::new();
    for i in 0..3 {
        let t = snap_tree(i);
        let repo = env.open_ids().expect("open");
        _ = backup_with(&repo, &MemSource::new("r", t.clone()), &format!("t{i}"), T0 + 1000 + i as i64, &bopts().parent_opts(vkit::rep::popts().force(true))).expect("backup");
        trees.push(t);
    }
    Prepared { env, trees }
}

fn restore(env: &Env, label: &str, dest: &Path, c: &Case) -> Result<(), String> {
    let repo = env.open_full().map_err(|e| e.display_log())?;
    let snaps = repo.get_all_snapshots().map_err(|e| e.display_log())?;
    let snap = snaps.iter().find(|s| s.label == label).ok_or("snapshot not found")?;
    let node = repo.node_from_snapshot_and_path(snap, "").map_err(|e| e.display_log())?;
    let ls = repo.ls(&node, &LsOptions::default().recursive(true)).map_err(|e| e.display_log())?;
    let d = LocalDestination::new(dest.to_str().unwrap(), true, false).map_err(|e| e.display_log())?;
    let mut opts = RestoreOptions::default().delete(c.delete).verify_existing(c.verify_existing).no_ownership(c.no_ownership);
    if c.sparse {
        opts = opts.sparse(Some(serde_json::from_value(json!("ByContent")).map_err(|e| e.to_string())?));
    }
    let plan = repo.prepare_restore(&opts, ls.clone(), &d, false).map_err(|e| format!("prepare: {}", e.display_log()))?;
    repo.restore(plan, &opts, ls, &d).map_err(|e| format!("restore: {}", e.display_log()))
}

/// mutation applied to `rel` (or to a parent of it) in this case
fn mutation_of(c: &Case, rel: &str) -> String {
    let m = c
        .muts
        .iter()
        .find(|(r, _)| r == rel || rel.starts_with(&format!("{r}/")))
        .map_or_else(|| "unmutated".to_string(), |(_, m)| format!("{m:?}"));
    if m.starts_with("WrongType") || m == "SymlinkToOutside" {
        return "type-conflict".to_string();
    }
    if c.sparse && m != "unmutated" {
        return "sparse-over-existing-file".to_string();
    }
    m
}

fn error_kind(msg: &str) -> &'static str {
    if msg.contains("hardlink") {
        "hardlink"
    } else if msg.contains("Is a directory") {
        "is-a-directory"
    } else if msg.contains("Not a directory") {
        "not-a-directory"
    } else if msg.contains("File exists") {
        "file-exists"
    } else {
        "other"
    }
}

#[allow(dead_code)]
fn class_of(c: &Case) -> String {
    let mut m: Vec<String> = c.muts.iter().map(|(_, m)| format!("{m:?}")).collect();
    m.sort();
    m.dedup();
    let mut s = if m.is_empty() { "clean".to_string() } else { m.join("+") };
    if !c.extras.is_empty() {
        s.push_str("+extras");
    }
    format!("{s}/delete={}", c.delete)
}

fn run_case(pre: &Prepared, c: &Case, sb: &Path) -> Result<(), (String, String)> {
    let tree = &pre.trees[c.snap];
    let case_dir = sb.join("case");
    _ = fs::remove_dir_all(&case_dir);
    let dest = case_dir.join("dest");
    let outside = case_dir.join("outside");
    fs::create_dir_all(dest.join("r")).unwrap();
    fs::create_dir_all(outside.join("sub")).unwrap();
    fs::write(outside.join("sentinel"), b"must not change").unwrap();
    fs::write(outside.join("sub/other"), b"neither").unwrap();
    // pre-state: the snapshot content, mutated
    materialise(&dest.join("r"), tree);
    for (rel, m) in &c.muts {
        if let Some(e) = tree.get(rel) {
            apply_mutation(&dest.join("r"), rel, e, m);
        }
    }
    for x in &c.extras {
        plant_extra(&dest, x);
    }
    // the root dir r itself
    if let Some(mt) = tree.meta.mtime {
        set_mtime(&dest.join("r"), mt);
    }
    let outside_before = snapshot(&outside);
    let extras_before = snapshot(&dest);
    let wrong_types: Vec<String> = {
        let mut v: Vec<String> = c.muts.iter().filter(|(_, m)| matches!(m, Mutation::WrongTypeFile | Mutation::WrongTypeDir | Mutation::WrongTypeSymlink | Mutation::SymlinkToOutside)).map(|(_, m)| format!("{m:?}")).collect();
        v.sort();
        v.dedup();
        v
    };
    let class = format!("{}/delete={}", if wrong_types.is_empty() { "no-type-conflict" } else { "type-conflict" }, c.delete);
    let res = catch_unwind(AssertUnwindSafe(|| restore(&pre.env, &format!("t{}", c.snap), &dest, c)));
    let res = match res {
        Ok(r) => r,
        Err(e) => {
            let m = e.downcast_ref::<String>().cloned().or_else(|| e.downcast_ref::<&str>().map(|s| (*s).to_string())).unwrap_or_default();
            let sig = if class.starts_with("type-conflict") { format!("C14/{class}/panic") } else { format!("C14/panic/{}/{class}", error_kind(&m)) };
            return Err((sig, format!("restore panicked: {m}")));
        }
    };
    if snapshot(&outside) != outside_before {
        return Err((format!("C14/outside-touched/{class}"), "files outside the destination changed".into()));
    }
    if let Err(e) = res {
        let sig = if class.starts_with("type-conflict") { format!("C14/{class}/error") } else { format!("C14/error/{}/{class}", error_kind(&e)) };
        return Err((sig, format!("restore failed: {e}")));
    }
    // post-state
    let got: FsTree = snapshot(&dest);
    let mut all = vec![(Vec::new(), tree.clone())];
    tree.walk(b"", &mut all);
    let mut expected_paths = std::collections::BTreeSet::new();
    for (p, e) in &all {
        let mut full = b"r".to_vec();
        if !p.is_empty() {
            full.push(b'/');
            full.extend_from_slice(p);
        }
        _ = expected_paths.insert(full.clone());
        let name = String::from_utf8_lossy(&full).to_string();
        let rel0 = String::from_utf8_lossy(p).to_string();
        let Some(g) = got.get(&full) else {
            return Err((format!("C14/missing/{}/delete={}", mutation_of(c, &rel0), c.delete), format!("{name} is missing after restore")));
        };
        let rel = String::from_utf8_lossy(p).to_string();
        // a file (or a hardlink partner of it) left with other bytes but the snapshot's size and
        // mtime is only re-read with verify-existing: the statement's stated exception
        let group: Vec<String> = if e.meta.links > 1 && e.meta.dev != 0 && e.meta.inode != 0 {
            all.iter().filter(|(_, o)| o.meta.links > 1 && o.meta.inode == e.meta.inode && o.meta.dev == e.meta.dev).map(|(q, _)| String::from_utf8_lossy(q).to_string()).collect()
        } else {
            vec![rel.clone()]
        };
        let stale_allowed = !c.verify_existing && c.muts.iter().any(|(r, m)| group.contains(r) && *m == Mutation::SameSizeMtimeOtherBytes);
        match &e.ent {
            Ent::Dir(_) => {
                if g.kind != "dir" {
                    return Err((format!("C14/wrong-type/{}/delete={}", mutation_of(c, &rel0), c.delete), format!("{name} is a {} instead of a dir", g.kind)));
                }
            }
            Ent::File(d) => {
                if g.kind != "file" {
                    return Err((format!("C14/wrong-type/{}/delete={}", mutation_of(c, &rel0), c.delete), format!("{name} is a {} instead of a file", g.kind)));
                }
                if !stale_allowed && g.data.as_deref() != Some(&d[..]) {
                    let mo = mutation_of(c, &rel0);
                    let sig = if mo == "sparse-over-existing-file" { format!("C14/wrong-content/{mo}") } else { format!("C14/wrong-content/{mo}/delete={}", c.delete) };
                    return Err((sig, format!("{name} has {} bytes, snapshot has {} (first difference at {:?})", g.data.as_ref().map_or(0, Vec::len), d.len(), g.data.as_ref().and_then(|x| x.iter().zip(d.iter()).position(|(a, b)| a != b)))));
                }
            }
            Ent::Symlink(t) => {
                if g.kind != "symlink" || g.target.as_deref() != Some(&t[..]) {
                    return Err((format!("C14/wrong-symlink/{}/delete={}", mutation_of(c, &rel0), c.delete), format!("{name} is {} -> {:?}", g.kind, g.target.as_ref().map(|t| String::from_utf8_lossy(t).to_string()))));
                }
            }
        }
        if !matches!(e.ent, Ent::Symlink(_)) {
            if let Some(m) = e.meta.mode {
                if g.mode != m & 0o7777 {
                    return Err((format!("C14/wrong-mode/{}/delete={}", mutation_of(c, &rel0), c.delete), format!("{name} has mode {:o}, snapshot {:o}", g.mode, m)));
                }
            }
            if let Some(mt) = e.meta.mtime {
                if g.mtime != mt {
                    return Err((format!("C14/wrong-mtime/{}/delete={}", mutation_of(c, &rel0), c.delete), format!("{name} has mtime {}, snapshot {}", g.mtime, mt)));
                }
            }
        }
    }
    // hardlinks share an inode
    if c.snap == 0 {
        if let (Some(a), Some(b)) = (got.get(&b"r/h1"[..]), got.get(&b"r/h2"[..])) {
            if a.ino != b.ino {
                return Err((format!("C14/hardlink/delete={}", c.delete), "h1 and h2 are not hardlinked after restore".into()));
            }
        }
    }
    // extras
    for (p, before) in &extras_before {
        if expected_paths.contains(p) || expected_paths.iter().any(|e| p.starts_with(e) && p.get(e.len()) == Some(&b'/') && !is_snapshot_dir(tree, e)) {
            continue;
        }
        // entries below a path that the snapshot replaces (wrong-type dir) are not extras
        let below_replaced = c.muts.iter().any(|(rel, m)| *m == Mutation::WrongTypeDir && p.starts_with(format!("r/{rel}/").as_bytes()));
        if below_replaced {
            continue;
        }
        let is_extra = !expected_paths.contains(p);
        if !is_extra {
            continue;
        }
        match (c.delete, got.get(p)) {
            (true, Some(_)) => return Err((format!("C14/extra-not-removed/delete={}", c.delete), format!("{} still exists although delete was requested", String::from_utf8_lossy(p)))),
            (false, None) => return Err((format!("C14/extra-removed/delete={}", c.delete), format!("{} was removed although delete was not requested", String::from_utf8_lossy(p)))),
            (false, Some(g)) if g.kind != before.kind || g.data != before.data || g.target != before.target => {
                return Err((format!("C14/extra-modified/delete={}", c.delete), format!("{} was modified", String::from_utf8_lossy(p))));
            }
            _ => {}
        }
    }
    for p in got.keys() {
        if !expected_paths.contains(p) && !extras_before.contains_key(p) {
            return Err((format!("C14/unexpected-entry/delete={}", c.delete), format!("{} appeared in the destination", String::from_utf8_lossy(p))));
        }
    }
    Ok(())
}

fn is_snapshot_dir(tree: &Entry, full: &[u8]) -> bool {
    let rel = String::from_utf8_lossy(full).to_string();
    let rel = rel.strip_prefix("r").unwrap_or(&rel).trim_start_matches('/').to_string();
    if rel.is_empty() {
        return true;
    }
    tree.get(&rel).is_some_and(|e| matches!(e.ent, Ent::Dir(_)))
}

// ---- hostile node names

fn hostile_names(outside: &Path) -> Vec<(String, String)> {
    vec![
        ("dotdot".into(), "..".into()),
        ("dotdot-x".into(), "../x".into()),
        ("deep-dotdot".into(), "a/../../../outside/sub/planted".into()),
        ("absolute".into(), outside.join("abs_planted").to_string_lossy().to_string()),
        ("separator".into(), "a/b".into()),
        ("dot".into(), ".".into()),
        ("empty".into(), String::new()),
        ("dotdot-outside".into(), "../outside/sentinel".into()),
        ("dotdot-dir".into(), "../outside".into()),
    ]
}

fn run_hostile(which: &str, as_dir: bool, sb: &Path) -> Result<(), (String, String)> {
    let case_dir = sb.join("hostile");
    _ = fs::remove_dir_all(&case_dir);
    let dest = case_dir.join("dest");
    let outside = case_dir.join("outside");
    fs::create_dir_all(&dest).unwrap();
    fs::create_dir_all(outside.join("sub")).unwrap();
    fs::write(outside.join("sentinel"), b"must not change").unwrap();
    let (_, name) = hostile_names(&outside).into_iter().find(|(k, _)| k == which).expect("hostile name");
    // a snapshot whose tree holds a node with this stored name
    let env = Env::single();
    _ = env.init_with(tiny_config(2)).map_err(|e| ("C14/hostile/init".to_string(), e.display_log()))?;
    let mut t = Entry::dir(T0);
    t.insert("ok", Entry::file(b"fine".to_vec(), T0 + 1));
    if as_dir {
        t.insert("evil/inner", Entry::file(b"planted content".to_vec(), T0 + 2));
    } else {
        t.insert("evil", Entry::file(b"planted content".to_vec(), T0 + 2));
    }
    let mut src = MemSource::new("r", t);
    _ = src.name_override.insert(b"evil".to_vec(), name.clone());
    let repo = env.open_ids().map_err(|e| ("C14/hostile/open".to_string(), e.display_log()))?;
    if backup_with(&repo, &src, "evil", T0 + 1000, &bopts()).is_err() {
        // the library refused to store such a name: nothing to restore
        return Ok(());
    }
    let before = snapshot(&outside);
    let c = Case { snap: 0, muts: vec![], extras: vec![], delete: false, verify_existing: false, sparse: false, no_ownership: true };
    let res = catch_unwind(AssertUnwindSafe(|| restore(&env, "evil", &dest, &c)));
    if snapshot(&outside) != before {
        return Err((format!("C14/escape/{which}{}", if as_dir { "/dir" } else { "" }), format!("a node named {name:?} made restore write outside the destination")));
    }
    // nothing above the destination either
    let siblings: Vec<_> = fs::read_dir(&case_dir).unwrap().flatten().map(|e| e.file_name().to_string_lossy().to_string()).collect();
    if siblings.iter().any(|s| s != "dest" && s != "outside") {
        return Err((format!("C14/escape/{which}{}", if as_dir { "/dir" } else { "" }), format!("a node named {name:?} created {siblings:?} next to the destination")));
    }
    if res.is_err() {
        let w = if matches!(which, "dot" | "dotdot" | "empty") { "name-without-normal-component" } else { which };
        return Err((format!("C14/panic/hostile/{w}"), format!("restore panicked for a node named {name:?}")));
    }
    Ok(())
}

pub fn run(args: &Args, rep: &mut Report) {
    std::panic::set_hook(Box::new(|_| {}));
    let sb = sandbox(&format!("c14-{}", args.shard));
    let pre = prepare();
    let quick = args.quick();
    rep.set_meta("rule", json!("3 snapshots (multi-blob file, empty file, nested dirs, symlink, hardlink pair, executable; all-zero and holey files, empty dir; dangling absolute symlink, deep path) x destination pre-states built from the snapshot content by every single mutation {absent, same size+mtime other bytes, same size other mtime, truncated, longer, wrong type file/dir/symlink, mode changed} of every path (and every pair of mutations on two paths in thorough / a subset in quick), with and without extra entries (file at root, nested file, non-empty dir, symlink) x {delete} x {verify-existing} x {sparse} x {no-ownership}; hostile stored node names (.., ../x, a/../../.., absolute path, a/b, ., empty) as file and as directory. Non-trivial = distinct cases with at least one mutation or extra"));
    if let Some(p) = &args.replay {
        let v: Value = serde_json::from_str(&std::fs::read_to_string(p).unwrap()).unwrap();
        rep.inc("cases");
        if let Some(w) = v["case"]["hostile"].as_str() {
            if let Err((sig, msg)) = run_hostile(w, v["case"]["as_dir"].as_bool().unwrap_or(false), &sb) {
                rep.violation(sig, msg, v["case"].clone());
            }
        } else {
            let c: Case = serde_json::from_value(v["case"].clone()).unwrap();
            if let Err((sig, msg)) = run_case(&pre, &c, &sb) {
                rep.violation(sig, msg, v["case"].clone());
            }
        }
        _ = fs::remove_dir_all(&sb);
        return;
    }
    let mut idx = 0usize;
    let mut exec = |c: Case, rep: &mut Report| {
        idx += 1;
        if idx % args.nshards != args.shard {
            return;
        }
        if rep.over_budget() {
            return;
        }
        rep.inc("cases");
        if c.muts.iter().any(|(_, m)| matches!(m, Mutation::Chunks { .. })) {
            rep.inc("chunk_pattern_cases");
        }
        if !c.muts.is_empty() || !c.extras.is_empty() {
            _ = rep.distinct("nontrivial", &serde_json::to_string(&c).unwrap());
        }
        if rep.samples.len() < 3 && c.muts.len() == 2 {
            rep.sample(serde_json::to_value(&c).unwrap());
        }
        match run_case(&pre, &c, &sb) {
            Ok(()) => rep.inc("held"),
            Err((sig, msg)) => {
                if !rep.has_violation(&sig) {
                    rep.violation(sig, msg, serde_json::to_value(&c).unwrap());
                } else {
                    rep.inc("violations_raw");
                }
            }
        }
    };
    for snap in 0..3 {
        let tree = &pre.trees[snap];
        let mut all = Vec::new();
        tree.walk(b"", &mut all);
        let paths: Vec<(String, Entry)> = all.into_iter().map(|(p, e)| (String::from_utf8_lossy(&p).to_string(), e)).collect();
        let option_sets: Vec<(bool, bool, bool, bool)> = {
            let mut v = Vec::new();
            for delete in [false, true] {
                for verify in [false, true] {
                    for sparse in [false, true] {
                        for noown in [true, false] {
                            v.push((delete, verify, sparse, noown));
                        }
                    }
                }
            }
            v
        };
        let extras_sets: Vec<Vec<Extra>> = vec![
            vec![],
            vec![Extra::FileAtRoot, Extra::FileNested, Extra::DirNonEmpty, Extra::Symlink],
            vec![Extra::FileAtRoot, Extra::FileNested, Extra::DirNonEmpty, Extra::Symlink, Extra::SymlinkToDirOutside, Extra::SymlinkToDirInside],
        ];
        // clean destination and singles: all option sets
        for (delete, verify, sparse, noown) in &option_sets {
            for extras in &extras_sets {
                exec(Case { snap, muts: vec![], extras: extras.clone(), delete: *delete, verify_existing: *verify, sparse: *sparse, no_ownership: *noown }, rep);
                for (p, e) in &paths {
                    for m in &MUTATIONS {
                        if !applicable(e, m) {
                            continue;
                        }
                        exec(Case { snap, muts: vec![(p.clone(), m.clone())], extras: extras.clone(), delete: *delete, verify_existing: *verify, sparse: *sparse, no_ownership: *noown }, rep);
                    }
                }
            }
        }
        // per-chunk damage patterns of every multi-chunk file: every subset of its first five
        // chunks x {same length, shorter, longer}
        for (p, e) in &paths {
            let Ent::File(d) = &e.ent else { continue };
            let n = chunk_lens(d).len();
            if n < 2 || e.meta.links > 1 {
                continue;
            }
            for mask in 0..(1u32 << n.min(5)) {
                for tail in [0i8, -1, 1] {
                    if mask == 0 && tail == 0 {
                        continue;
                    }
                    for (delete, verify) in [(false, false), (true, true)] {
                        for sparse in [false, true] {
                            exec(Case { snap, muts: vec![(p.clone(), Mutation::Chunks { mask, tail })], extras: vec![], delete, verify_existing: verify, sparse, no_ownership: true }, rep);
                        }
                    }
                }
            }
        }
        // pairs of mutations on two different paths
        for (i, (p1, e1)) in paths.iter().enumerate() {
            for (p2, e2) in paths.iter().skip(i + 1) {
                // a mutation below a path that is itself replaced is meaningless
                if p2.starts_with(&format!("{p1}/")) {
                    continue;
                }
                for m1 in &MUTATIONS {
                    for m2 in &MUTATIONS {
                        if !applicable(e1, m1) || !applicable(e2, m2) {
                            continue;
                        }
                        for (delete, verify) in if quick { vec![(false, false), (true, true)] } else { vec![(false, false), (true, true), (false, true), (true, false)] } {
                            let _ = quick;
                            exec(Case { snap, muts: vec![(p1.clone(), m1.clone()), (p2.clone(), m2.clone())], extras: vec![], delete, verify_existing: verify, sparse: false, no_ownership: true }, rep);
                        }
                    }
                }
            }
        }
    }
    // hostile names
    let names = hostile_names(Path::new("/x"));
    for (i, (which, _)) in names.iter().enumerate() {
        for as_dir in [false, true] {
            if (i * 2 + usize::from(as_dir)) % args.nshards != args.shard {
                continue;
            }
            rep.inc("cases");
            rep.inc("hostile_name_cases");
            _ = rep.distinct("nontrivial", &(which, as_dir));
            if let Err((sig, msg)) = run_hostile(which, as_dir, &sb) {
                if !rep.has_violation(&sig) {
                    rep.violation(sig, msg, json!({"hostile": which, "as_dir": as_dir}));
                }
            }
        }
    }
    _ = fs::remove_dir_all(&sb);
}
