//! C05 — check is sound and complete with respect to restorability.
//! TAMPER: repositories produced by real histories x every stored file x fault family;
//! oracle: not (check --read-data clean and some snapshot does not restore to its source).

use std::collections::BTreeMap;

use rustic_core::{FileType, LimitOption, PruneOptions};
use serde_json::{Value, json};
use vkit::{
    backend::{Store, ft_name},
    decode::RawKey,
    logical::{LTree, diff, model_tree},
    rep::{Env, backup_with, bopts, check_errors, master_key, other_master_key, read_all, tiny_config},
    report::{Args, Report},
    source::MemSource,
    tamper::{Fault, apply, faults_for, par_map, region},
};

use crate::c02::{T0, source};

pub struct Subject {
    pub name: &'static str,
    pub store: Store,
    pub model: BTreeMap<String, LTree>,
}

fn cfg(version: u32, dp: u32, tp: u32) -> rustic_core::repofile::ConfigFile {
    let mut c = tiny_config(version);
    c.datapack_size = Some(dp);
    c.datapack_growfactor = Some(0);
    c.treepack_size = Some(tp);
    c.treepack_growfactor = Some(0);
    c
}

fn bk(env: &Env, v: usize, label: &str, model: &mut BTreeMap<String, LTree>) {
    let repo = env.open_ids().expect("open");
    _ = backup_with(&repo, &MemSource::new("r", source(v)), label, T0 + 1000 + v as i64, &bopts()).expect("backup");
    _ = model.insert(label.to_string(), model_tree("r", &source(v)));
}

pub fn subjects() -> Vec<Subject> {
    let mut out = Vec::new();
    // (1) fresh: two snapshots, several packs
    {
        let env = Env::single();
        _ = env.init_with(cfg(2, 600, 500)).expect("init");
        let mut model = BTreeMap::new();
        bk(&env, 0, "s0", &mut model);
        bk(&env, 1, "s1", &mut model);
        out.push(Subject { name: "fresh", store: env.store(), model });
    }
    // (2) after forget + prune: marked packs, rewritten index
    {
        let env = Env::single();
        _ = env.init_with(cfg(2, 600, 500)).expect("init");
        let mut model = BTreeMap::new();
        bk(&env, 0, "s0", &mut model);
        bk(&env, 1, "s1", &mut model);
        let repo = env.open().expect("open");
        let ids: Vec<_> = repo.get_all_snapshots().unwrap().iter().filter(|s| s.label == "s0").map(|s| s.id).collect();
        repo.delete_snapshots(&ids).expect("forget");
        _ = model.remove("s0");
        let o = PruneOptions::default().max_unused(LimitOption::Percentage(0)).max_repack(LimitOption::Unlimited);
        let plan = repo.prune_plan(&o).expect("plan");
        repo.prune(&o, plan).expect("prune");
        out.push(Subject { name: "pruned-with-marked-packs", store: env.store(), model });
    }
    // (2b) after forget without prune (and after a prune which tolerates unused blobs): packs which
    // hold needed and no longer needed blobs side by side
    {
        let env = Env::single();
        _ = env.init_with(cfg(2, 600, 500)).expect("init");
        let mut model = BTreeMap::new();
        bk(&env, 0, "s0", &mut model);
        bk(&env, 1, "s1", &mut model);
        let repo = env.open().expect("open");
        let ids: Vec<_> = repo.get_all_snapshots().unwrap().iter().filter(|s| s.label == "s0").map(|s| s.id).collect();
        repo.delete_snapshots(&ids).expect("forget");
        _ = model.remove("s0");
        let o = PruneOptions::default().max_unused(LimitOption::Unlimited).max_repack(LimitOption::Unlimited);
        let plan = repo.prune_plan(&o).expect("plan");
        repo.prune(&o, plan).expect("prune");
        out.push(Subject { name: "partly-used-packs", store: env.store(), model });
    }
    // (2c) two snapshots carrying exactly the same time (e.g. two hosts at the same instant)
    {
        let env = Env::single();
        _ = env.init_with(cfg(2, 600, 500)).expect("init");
        let mut model = BTreeMap::new();
        for (v, label) in [(0usize, "t0"), (2, "t2")] {
            let repo = env.open_ids().expect("open");
            _ = backup_with(&repo, &MemSource::new("r", source(v)), label, T0 + 1000, &bopts()).expect("backup");
            _ = model.insert(label.to_string(), model_tree("r", &source(v)));
        }
        out.push(Subject { name: "equal-snapshot-times", store: env.store(), model });
    }
    // (3) duplicate blobs: the same source backed up again through a stale handle
    {
        let env = Env::single();
        _ = env.init_with(cfg(2, 600, 500)).expect("init");
        let mut model = BTreeMap::new();
        bk(&env, 0, "s0", &mut model);
        let stale = env.open_ids().expect("open");
        bk(&env, 1, "s1", &mut model);
        _ = backup_with(&stale, &MemSource::new("r", source(1)), "s1b", T0 + 2000, &bopts()).expect("stale backup");
        _ = model.insert("s1b".to_string(), model_tree("r", &source(1)));
        out.push(Subject { name: "duplicate-blobs", store: env.store(), model });
    }
    // (4) one-blob packs: a pack holding only a root tree
    {
        let env = Env::single();
        _ = env.init_with(cfg(2, 10, 10)).expect("init");
        let mut model = BTreeMap::new();
        bk(&env, 0, "s0", &mut model);
        out.push(Subject { name: "one-blob-packs", store: env.store(), model });
    }
    // (5) repository version 1 (no compression)
    {
        let env = Env::single();
        _ = env.init_with(cfg(1, 600, 500)).expect("init");
        let mut model = BTreeMap::new();
        bk(&env, 0, "s0", &mut model);
        bk(&env, 2, "s2", &mut model);
        out.push(Subject { name: "v1-uncompressed", store: env.store(), model });
    }
    out
}

#[derive(Clone, Debug)]
pub struct Case {
    pub subject: usize,
    pub file: usize,
    pub fault: Fault,
}

#[derive(Debug)]
pub enum Verdict {
    /// check reported an error (or could not run)
    Detected,
    /// check clean and every snapshot restores under every listing order
    Harmless,
    /// check clean but a snapshot does not restore
    Undetected(String),
    Panic(String),
    NotApplicable,
}

pub fn listing_orders(n_index: usize, all: bool) -> Vec<(usize, bool)> {
    // rotations x reversal of the listing (for <= 3 files these are all permutations)
    let mut v = vec![(0, false), (0, true)];
    if all {
        for r in 1..n_index.max(1) {
            v.push((r, false));
            v.push((r, true));
        }
    }
    v
}

pub fn evaluate(raw: &RawKey, other: &RawKey, sub: &Subject, c: &Case, all_orders: bool) -> Verdict {
    let (tpe, id, _) = sub.store.files[c.file].clone();
    let Some(faulted) = apply(raw, other, &sub.store, tpe, &id, &c.fault) else { return Verdict::NotApplicable };
    let r = std::panic::catch_unwind(std::panic::AssertUnwindSafe(|| {
        let env = Env::from_store(faulted.clone());
        let clean_plain = matches!(check_errors(&env, true), Ok(e) if e.is_empty());
        // the same check through a handle whose local cache was filled from the intact repository,
        // trusting the cache: --read-data still promises that every pack is read from the repository
        // (for faults in index and snapshot files a trusted cache hides the repository by design)
        let clean_cached = tpe == FileType::Pack && {
            let dir = scratch_dir();
            vkit::fsx::restore_tree(&dir, &warm_cache(sub));
            let mut cenv = Env::from_store(faulted.clone());
            cenv.opts = vkit::rep::repo_opts().no_cache(false).cache_dir(dir.clone());
            let r = cenv.open().and_then(|r| r.check(rustic_core::CheckOptions::default().read_data(true).trust_cache(true)));
            _ = std::fs::remove_dir_all(&dir);
            matches!(r, Ok(res) if vkit::rep::check_result_errors(&res).is_empty())
        };
        if !clean_plain && !clean_cached {
            return Verdict::Detected;
        }
        let which = if clean_plain { "" } else { "[check through a warm, trusted cache] " };
        let n_index = faulted.ids(FileType::Index).len();
        for (rot, rev) in listing_orders(n_index, all_orders) {
            // rotate the stored order of index files (listing = insertion order)
            let mut st = faulted.clone();
            if rot > 0 {
                let idx: Vec<_> = st.files.iter().filter(|f| f.0 == FileType::Index).cloned().collect();
                st.files.retain(|f| f.0 != FileType::Index);
                let k = rot % idx.len().max(1);
                st.files.extend(idx[k..].iter().cloned());
                st.files.extend(idx[..k].iter().cloned());
            }
            let env = Env::from_store(st);
            env.world.lock().unwrap().list_reversed = rev;
            // every snapshot the repository lists must restore to the source of its label (a deleted
            // snapshot file removes the snapshot itself: nothing is left that could fail to restore)
            match crate::c03::read_state_env(&env).map(|v| v.into_iter().map(|(_, l, r)| (l, r)).collect::<Vec<_>>()) {
                Err(e) => return Verdict::Undetected(format!("{which}listing order (rot {rot}, rev {rev}): {e}")),
                Ok(got) => {
                    for (l, r) in got {
                        match (r, sub.model.get(&l)) {
                            (Err(e), _) => return Verdict::Undetected(format!("{which}listing order (rot {rot}, rev {rev}): snapshot {l}: {e}")),
                            (Ok(_), None) => return Verdict::Undetected(format!("a snapshot with the unknown label {l:?} is listed")),
                            (Ok(g), Some(t)) => {
                                if let Some(d) = diff(t, &g) {
                                    return Verdict::Undetected(format!("{which}snapshot {l}: {d}"));
                                }
                            }
                        }
                    }
                }
            }
        }
        Verdict::Harmless
    }));
    match r {
        Ok(v) => v,
        Err(e) => Verdict::Panic(
            e.downcast_ref::<String>().cloned().or_else(|| e.downcast_ref::<&str>().map(|s| (*s).to_string())).unwrap_or_default(),
        ),
    }
}

fn scratch_dir() -> std::path::PathBuf {
    static N: std::sync::atomic::AtomicUsize = std::sync::atomic::AtomicUsize::new(0);
    let base = if std::path::Path::new("/dev/shm").is_dir() { std::path::PathBuf::from("/dev/shm") } else { std::env::temp_dir() };
    base.join(format!("vp-C05-{}-{}", std::process::id(), N.fetch_add(1, std::sync::atomic::Ordering::Relaxed)))
}

/// the cache a client holds after it checked and read the intact repository (index, snapshots, tree packs)
fn warm_cache(sub: &Subject) -> std::sync::Arc<vkit::fsx::FsTree> {
    static WARM: std::sync::Mutex<BTreeMap<&'static str, std::sync::Arc<vkit::fsx::FsTree>>> = std::sync::Mutex::new(BTreeMap::new());
    let mut w = WARM.lock().unwrap_or_else(std::sync::PoisonError::into_inner);
    if let Some(t) = w.get(sub.name) {
        return t.clone();
    }
    let dir = scratch_dir();
    let mut env = Env::from_store(sub.store.clone());
    env.opts = vkit::rep::repo_opts().no_cache(false).cache_dir(dir.clone());
    _ = env.open().and_then(|r| r.check(rustic_core::CheckOptions::default()));
    _ = read_all(&env);
    let t = std::sync::Arc::new(vkit::fsx::snapshot(&dir));
    _ = std::fs::remove_dir_all(&dir);
    _ = w.insert(sub.name, t.clone());
    t
}

pub fn all_cases(raw: &RawKey, subs: &[Subject], dense: bool) -> Vec<Case> {
    let mut v = Vec::new();
    for (si, s) in subs.iter().enumerate() {
        for (fi, (tpe, id, _)) in s.store.files.iter().enumerate() {
            if *tpe == FileType::Config {
                continue;
            }
            for f in faults_for(raw, &s.store, *tpe, id, dense, 2048) {
                v.push(Case { subject: si, file: fi, fault: f });
            }
        }
    }
    v
}

fn case_json(subs: &[Subject], c: &Case) -> Value {
    json!({"subject": subs[c.subject].name, "file_index": c.file, "file_type": ft_name(subs[c.subject].store.files[c.file].0), "fault": serde_json::to_value(&c.fault).unwrap()})
}

pub fn run(args: &Args, rep: &mut Report) {
    let raw = RawKey::from_master(&master_key());
    let other = RawKey::from_master(&other_master_key());
    std::panic::set_hook(Box::new(|_| {}));
    let subs = subjects();
    rep.set_meta("rule", json!("7 repositories produced by real histories (fresh; two snapshots with the same time; after forget+prune with marked packs; after forget and a prune which keeps partly used packs; duplicate blobs via a stale handle; one-blob packs; repo version 1) x every stored file except config x {remove; truncate; flip; append 1/16/32 bytes; replace by each sibling of the same type; same plaintext under another key; index: duplicate / drop a pack entry, drop a blob entry}; for pack files check --read-data is also run through a handle with a warm local cache and --trust-cache (clean in either mode => everything must restore). quick: one bit per ciphertext byte and all 8 bits of nonces, MACs, pack headers, trailers; boundary truncation lengths. thorough: every bit and every truncation length of files <= 2 KiB. Non-trivial = distinct faults whose verdict is 'detected by check' (the fault is visible) - harmless ones are counted separately"));
    // the unfaulted subjects: check clean and everything restorable
    if args.shard == 0 && args.replay.is_none() {
        for s in &subs {
            let env = Env::from_store(s.store.clone());
            let errs = check_errors(&env, true).unwrap_or_else(|e| vec![e]);
            if !errs.is_empty() {
                rep.violation(format!("C05/base/{}/check", s.name), errs.join(" | "), json!({"subject": s.name}));
            }
            if let Err(e) = read_all(&env) {
                rep.violation(format!("C05/base/{}/read", s.name), e, json!({"subject": s.name}));
            }
            rep.inc("cases");
        }
    }
    if let Some(p) = &args.replay {
        let v: Value = serde_json::from_str(&std::fs::read_to_string(p).unwrap()).unwrap();
        let c = &v["case"];
        let si = subs.iter().position(|s| Some(s.name) == c["subject"].as_str()).expect("subject");
        let case = Case { subject: si, file: c["file_index"].as_u64().unwrap() as usize, fault: serde_json::from_value(c["fault"].clone()).unwrap() };
        rep.inc("cases");
        judge(&raw, &subs, &case, evaluate(&raw, &other, &subs[si], &case, true), rep);
        return;
    }
    let dense = !args.quick();
    let cases: Vec<Case> = all_cases(&raw, &subs, dense).into_iter().enumerate().filter(|(i, _)| args.mine(*i)).map(|(_, c)| c).collect();
    rep.set_meta("bounds", json!(format!("{} faults in this run's shards; listing orders: {}", cases.len(), if dense { "all rotations x reversal of the index listing" } else { "insertion order and reversed" })));
    let threads = 48;
    // evaluated in chunks so that the wall-clock cap can stop the enumeration between chunks
    for chunk in cases.chunks(4000) {
        if rep.over_budget() {
            break;
        }
        let verdicts = par_map(chunk.len(), threads, |i| evaluate(&raw, &other, &subs[chunk[i].subject], &chunk[i], dense));
        for (c, v) in chunk.iter().zip(verdicts) {
            rep.inc("cases");
            judge(&raw, &subs, c, v, rep);
        }
    }
}

fn judge(raw: &RawKey, subs: &[Subject], c: &Case, v: Verdict, rep: &mut Report) {
    let s = &subs[c.subject];
    let (tpe, _, data) = &s.store.files[c.file];
    let reg = match &c.fault {
        Fault::Flip { byte, .. } => region(raw, *tpe, data, *byte),
        _ => "",
    };
    let class = format!("{}/{}{}", c.fault.class(), ft_name(*tpe), if reg.is_empty() { String::new() } else { format!("/{reg}") });
    match v {
        Verdict::Detected => {
            rep.inc("verdict:detected");
            rep.inc(&format!("detected:{class}"));
            _ = rep.distinct("nontrivial", &(s.name, c.file, format!("{:?}", c.fault)));
        }
        Verdict::Harmless => {
            rep.inc("verdict:harmless");
            rep.inc(&format!("harmless:{class}"));
        }
        Verdict::NotApplicable => rep.inc("verdict:not-applicable"),
        Verdict::Undetected(m) => {
            rep.inc("verdict:undetected");
            let sig = format!("C05/undetected/{class}");
            if !rep.has_violation(&sig) {
                rep.violation(sig, format!("{}: check --read-data is clean but {m}", s.name), case_json(subs, c));
            }
        }
        Verdict::Panic(m) => {
            let sig = format!("C05/panic/{class}");
            if !rep.has_violation(&sig) {
                rep.violation(sig, format!("{}: panic: {m}", s.name), case_json(subs, c));
            }
        }
    }
    if rep.samples.len() < 3 && matches!(c.fault, Fault::Flip { .. }) {
        rep.sample(case_json(subs, c));
    }
}
