//! C13 — results do not depend on scheduling, latency or pack boundaries.
//! SCHED: every completion order (deviation-bounded) of the concurrently pending backend calls of
//! one real command; oracle across all executions.

use std::{
    collections::BTreeSet,
    sync::{Arc, Mutex},
};

use rustic_core::{
    BackupOptions, FileType, LimitOption, PruneOptions, Repository, RepositoryBackends,
    repofile::ConfigFile,
};
use serde_json::{Value, json};
use vkit::{
    backend::{MemBackend, Store, World},
    decode::{RawKey, canon_store, hex_id, independent_read, index_packs, pack_header},
    gate::{Controller, Exec, Gate, GateBackend, RunEnd, explore, oldest_first},
    logical::{diff, model_tree},
    rep::{Env, backup_with, master_key, repo_opts, tiny_config},
    report::{Args, Report},
    source::{Entry, MemSource},
};

use crate::c02::T0;

#[derive(Clone, Debug)]
pub struct Outcome {
    pub result: Result<String, String>,
    pub store: Store,
    /// store snapshots after each mutating call
    pub states: Vec<Vec<Store>>,
    pub log: Vec<vkit::backend::OpRec>,
}

pub fn lcg(seed: u64, n: usize) -> Vec<u8> {
    let mut x = seed.wrapping_mul(0x9E37_79B9_7F4A_7C15).wrapping_add(7);
    (0..n)
        .map(|_| {
            x = x.wrapping_mul(6364136223846793005).wrapping_add(1442695040888963407);
            (x >> 33) as u8
        })
        .collect()
}

/// 4 directories x 2 files; one chunk-sized content appears in two files (in-run dedup)
pub fn backup_source() -> Entry {
    let mut t = Entry::dir(T0);
    let dup = lcg(77, 150);
    for d in 0..4u64 {
        t.insert(&format!("d{d}/x"), Entry::file(lcg(10 + d, 150), T0 + 1));
        let second = if d % 2 == 0 { dup.clone() } else { lcg(20 + d, 150) };
        t.insert(&format!("d{d}/y"), Entry::file(second, T0 + 2));
    }
    t
}

pub fn config_with_packs(version: u32, data_pack: u32, tree_pack: u32) -> ConfigFile {
    let mut cfg = tiny_config(version);
    cfg.datapack_size = Some(data_pack);
    cfg.datapack_growfactor = Some(0);
    cfg.treepack_size = Some(tree_pack);
    cfg.treepack_growfactor = Some(0);
    cfg
}

/// Run one command under the gate. `cmd` gets the gated backends; the gate is enabled before the
/// repository is opened iff `gate_open`.
pub fn run_gated<F>(
    raw: &RawKey,
    stores: Vec<Store>,
    prefix: &[vkit::gate::OpDesc],
    gate_open: bool,
    cmds: Vec<F>,
    default: vkit::gate::DefaultRule,
) -> Exec<Vec<Outcome>>
where
    F: FnOnce(RepositoryBackends, Arc<Gate>) -> Result<String, String> + Send + 'static,
{
    let mut world = World::from_stores(stores.clone());
    world.record_states = true;
    let world = world.shared();
    let gate = Gate::new(raw.clone(), &stores);
    gate.set_enabled(gate_open);
    let n = cmds.len();
    let finished = Arc::new(Mutex::new(vec![false; n]));
    let results: Arc<Mutex<Vec<Option<Result<String, String>>>>> = Arc::new(Mutex::new(vec![None; n]));
    let mut handles = Vec::new();
    // command threads (and everything they spawn) inherit the pinned affinity of this thread ...
    let pinned = vkit::gate::current_affinity();
    for (i, cmd) in cmds.into_iter().enumerate() {
        let main = GateBackend::arc(&gate, MemBackend::arc(&world, 0), i, 0);
        let hot = (stores.len() > 1).then(|| GateBackend::arc(&gate, MemBackend::arc(&world, 1), i, 1));
        let bes = RepositoryBackends::new(main, hot);
        let fin = finished.clone();
        let res = results.clone();
        let g = gate.clone();
        handles.push(std::thread::spawn(move || {
            let r = std::panic::catch_unwind(std::panic::AssertUnwindSafe(|| cmd(bes, g)));
            let r = match r {
                Ok(r) => r,
                Err(e) => Err(format!(
                    "PANIC: {}",
                    e.downcast_ref::<String>().cloned().or_else(|| e.downcast_ref::<&str>().map(|s| (*s).to_string())).unwrap_or_default()
                )),
            };
            res.lock().unwrap()[i] = Some(r);
            fin.lock().unwrap()[i] = true;
        }));
    }
    // ... while the controller itself observes from any other CPU
    vkit::gate::unpin_current();
    let ctl = Controller {
        gate: gate.clone(),
        finished: finished.clone(),
        ncmds: n,
        quiesce_samples: std::env::var("VERIF_QS").ok().and_then(|s| s.parse().ok()).unwrap_or(2),
    };
    let (steps, end, divergences) = ctl.drive(prefix, default, |_, _| {});
    if end == RunEnd::Finished {
        for h in handles {
            _ = h.join();
        }
    } else {
        // open the gate so that stuck threads can drain; do not join (they may be deadlocked)
        gate.set_enabled(false);
        std::thread::sleep(std::time::Duration::from_millis(50));
    }
    vkit::gate::set_affinity(&pinned);
    let w = world.lock().unwrap();
    let res = results.lock().unwrap();
    let outcome = (0..n)
        .map(|i| Outcome {
            result: res[i].clone().unwrap_or_else(|| Err("command did not finish".into())),
            store: w.stores[0].clone(),
            states: w.states.clone(),
            log: w.log.clone(),
        })
        .collect();
    Exec {
        steps,
        end,
        outcome,
        divergences,
    }
}

/// pack/index agreement of a final state: every blob of every pack is listed for that pack by an
/// index, every index entry points to an existing pack with exactly those blobs
pub fn pack_index_agreement(raw: &RawKey, store: &Store) -> Result<(), String> {
    let idx = index_packs(raw, store)?;
    for (pid, _) in store.list(FileType::Pack) {
        let h = hex_id(&pid);
        let hdr = pack_header(raw, store.get(FileType::Pack, &pid).unwrap()).map_err(|e| format!("pack {}: {e}", &h[..8]))?;
        let listed: Vec<_> = idx.iter().filter(|p| p.pack_id == h).collect();
        if listed.is_empty() {
            return Err(format!("pack {} ({} blobs) is not listed by any index file", &h[..8], hdr.len()));
        }
        for l in listed {
            let a: Vec<_> = l.blobs.iter().map(|b| (b.tpe, b.id.clone(), b.offset, b.length, b.uncompressed)).collect();
            let b: Vec<_> = hdr.iter().map(|b| (b.tpe, b.id.clone(), b.offset, b.length, b.uncompressed)).collect();
            if !l.blobs.is_empty() && a != b {
                return Err(format!("index entry of pack {} lists {a:?} but the pack header says {b:?}", &h[..8]));
            }
        }
    }
    for p in &idx {
        if store.get(FileType::Pack, &p.pack_id.parse().map_err(|_| "bad pack id")?).is_none() {
            return Err(format!("index lists pack {} which does not exist", &p.pack_id[..8]));
        }
    }
    Ok(())
}

struct Driver {
    name: &'static str,
    stores: Vec<Store>,
    /// builds the command closure
    make: Box<dyn Fn() -> Box<dyn FnOnce(RepositoryBackends, Arc<Gate>) -> Result<String, String> + Send>>,
    /// expected logical content by label after the command
    expect: std::collections::BTreeMap<String, vkit::logical::LTree>,
    /// own execution cap per shard (long executions)
    cap: Option<usize>,
}

fn open_with(bes: &RepositoryBackends) -> Result<Repository<rustic_core::OpenStatus>, String> {
    Repository::new(&repo_opts(), bes)
        .map_err(|e| e.display_log())?
        .open(&rustic_core::Credentials::Masterkey(master_key()))
        .map_err(|e| e.display_log())
}

fn backup_driver(name: &'static str, data_pack: u32, tree_pack: u32, idx_max: usize) -> Driver {
    let env = Env::single();
    _ = env.init_with(config_with_packs(2, data_pack, tree_pack)).expect("init");
    let tree = backup_source();
    let mut expect = std::collections::BTreeMap::new();
    _ = expect.insert("s0".to_string(), model_tree("r", &tree));
    Driver {
        name,
        stores: env.stores(),
        make: Box::new(move || {
            let tree = tree.clone();
            Box::new(move |bes, gate| {
                rustic_core::verif::limits::set_indexer_max_count(idx_max);
                let repo = open_with(&bes)?.to_indexed_ids().map_err(|e| e.display_log())?;
                gate.set_enabled(true);
                let snap = backup_with(&repo, &MemSource::new("r", tree), "s0", T0 + 1000, &vkit::rep::bopts())
                    .map_err(|e| e.display_log())?;
                Ok(snap.tree.to_hex().to_string())
            })
        }),
        expect,
        cap: None,
    }
}

fn prune_driver(name: &'static str, fast: bool) -> Driver {
    prune_driver_with(name, fast, 600, 500, false, None)
}

/// `repack_all` with one-blob packs: the repack writes more packs per blob type than the pack
/// writer pipeline holds at once
fn prune_driver_with(name: &'static str, fast: bool, data_pack: u32, tree_pack: u32, repack_all: bool, cap: Option<usize>) -> Driver {
    prune_driver_full(name, fast, data_pack, tree_pack, repack_all, cap, false)
}

/// `forget_all`: no snapshot is left, a non-instant prune marks every pack (its new index file lists
/// marked packs only)
fn prune_driver_full(name: &'static str, fast: bool, data_pack: u32, tree_pack: u32, repack_all: bool, cap: Option<usize>, forget_all: bool) -> Driver {
    // three snapshots of the evolving source, the first two forgotten: prune has packs to repack
    let env = Env::single();
    _ = env.init_with(config_with_packs(2, data_pack, tree_pack)).expect("init");
    let mut expect = std::collections::BTreeMap::new();
    for v in 0..3 {
        let t = crate::c02::source(v);
        let repo = env.open_ids().expect("open");
        _ = backup_with(&repo, &MemSource::new("r", t.clone()), &format!("s{v}"), T0 + 1000 + v as i64, &vkit::rep::bopts()).expect("backup");
        if v == 2 && !forget_all {
            _ = expect.insert(format!("s{v}"), model_tree("r", &t));
        }
    }
    let repo = env.open().expect("open");
    let ids: Vec<_> = repo.get_all_snapshots().unwrap().iter().filter(|s| forget_all || s.label != "s2").map(|s| s.id).collect();
    repo.delete_snapshots(&ids).expect("forget");
    Driver {
        name,
        stores: env.stores(),
        make: Box::new(move || {
            Box::new(move |bes, gate| {
                rustic_core::verif::limits::set_indexer_max_count(0);
                let repo = open_with(&bes)?;
                gate.set_enabled(true);
                let opts = PruneOptions::default()
                    .max_unused(LimitOption::Percentage(0))
                    .max_repack(LimitOption::Unlimited)
                    .fast_repack(fast)
                    .repack_all(repack_all)
                    .keep_delete(if forget_all { jiff::Span::new().hours(23) } else { jiff::Span::new() });
                let plan = repo.prune_plan(&opts).map_err(|e| e.display_log())?;
                let n = plan.repack_packs().len();
                repo.prune(&opts, plan).map_err(|e| e.display_log())?;
                Ok(format!("repacked {n} packs"))
            })
        }),
        expect,
        cap,
    }
}

fn copy_driver(name: &'static str) -> Driver {
    // source repository (ungated) with one snapshot; destination is the gated, initially empty repo
    let src_env = Env::single();
    _ = src_env.init_with(config_with_packs(2, 400, 400)).expect("init");
    let tree = backup_source();
    let repo = src_env.open_ids().expect("open");
    _ = backup_with(&repo, &MemSource::new("r", tree.clone()), "s0", T0 + 1000, &vkit::rep::bopts()).expect("backup");
    let dst = Env::single();
    let mut cfg = config_with_packs(2, 10, 10);
    cfg.id = serde_json::from_value(json!("2222222222222222222222222222222222222222222222222222222222222222")).unwrap();
    _ = dst.init_with(cfg).expect("init");
    let mut expect = std::collections::BTreeMap::new();
    _ = expect.insert("s0".to_string(), model_tree("r", &tree));
    let src_store = src_env.store();
    Driver {
        name,
        stores: dst.stores(),
        make: Box::new(move || {
            let src_store = src_store.clone();
            Box::new(move |bes, gate| {
                rustic_core::verif::limits::set_indexer_max_count(0);
                let src_env = Env::from_store(src_store);
                let src = src_env.open_full().map_err(|e| e.display_log())?;
                let snaps = src.get_all_snapshots().map_err(|e| e.display_log())?;
                let dst = open_with(&bes)?.to_indexed_ids().map_err(|e| e.display_log())?;
                gate.set_enabled(true);
                src.copy(&dst, snaps.iter()).map_err(|e| e.display_log())?;
                Ok("copied".into())
            })
        }),
        expect,
        cap: None,
    }
}

/// A snapshot whose root holds 300 distinct sub-directories (plus 2 earlier snapshots): the commands
/// that walk all trees with the parallel tree streamer (check, prune's plan, copy) have hundreds of
/// tree ids queued at once.
fn wide_tree_driver(name: &'static str, cap: usize) -> Driver {
    let env = Env::single();
    _ = env.init_with(config_with_packs(2, 4000, 4000)).expect("init");
    let mut t = crate::c02::source(0);
    for i in 0..300u64 {
        t.insert(&format!("wide/s{i:03}/f"), vkit::source::Entry::file(lcg(7000 + i, 8), T0 + 100 + i as i64));
    }
    let mut expect = std::collections::BTreeMap::new();
    let repo = env.open_ids().expect("open");
    _ = backup_with(&repo, &MemSource::new("r", t.clone()), "wide", T0 + 5000, &vkit::rep::bopts()).expect("backup");
    _ = expect.insert("wide".to_string(), model_tree("r", &t));
    Driver {
        name,
        stores: env.stores(),
        make: Box::new(move || {
            Box::new(move |bes, gate| {
                rustic_core::verif::limits::set_indexer_max_count(0);
                let repo = open_with(&bes)?;
                gate.set_enabled(true);
                let res = repo.check(rustic_core::CheckOptions::default()).map_err(|e| e.display_log())?;
                let errs = vkit::rep::check_result_errors(&res);
                if !errs.is_empty() {
                    return Err(format!("check reports {}", errs.join(" | ")));
                }
                let plan = repo.prune_plan(&PruneOptions::default()).map_err(|e| e.display_log())?;
                Ok(format!("checked; plan repacks {} packs", plan.repack_packs().len()))
            })
        }),
        expect,
        cap: Some(cap),
    }
}

pub fn run(args: &Args, rep: &mut Report) {
    let raw = RawKey::from_master(&master_key());
    let quick = args.quick();
    let bound = if quick { 3 } else { 4 };
    let max_execs = if quick { 150 } else { 40_000 };
    rep.set_meta("bounds", json!(format!(
        "completion orders of concurrently pending backend calls with <= {bound} deviations from oldest-first, <= {max_execs} executions per driver and shard; drivers: backup (one-blob packs / 3-blob packs / default packs, mid-run index saves), prune repack (fast, slow; repack-all with one-blob packs fast, slow), check + prune plan over a root with 300 sub-directories, copy; one CPU (pariter window 2), RAYON_NUM_THREADS=1")));
    rep.set_meta("assumptions", json!(["interleavings are explored at the granularity of backend calls with all internal stages run to quiescence in between (DESIGN.md §8)"]));
    let drivers: Vec<Driver> = vec![
        backup_driver("backup/one-blob-packs", 10, 10, 0),
        backup_driver("backup/one-blob-packs/index-every-2", 10, 10, 2),
        backup_driver("backup/3-blob-packs", 600, 900, 0),
        backup_driver("backup/default-packs", 4 * 1024 * 1024, 4 * 1024 * 1024, 0),
        prune_driver("prune/repack-fast", true),
        prune_driver("prune/repack-slow", false),
        prune_driver_with("prune/repack-all-fast/one-blob-packs", true, 10, 10, true, quick.then_some(40)),
        prune_driver_with("prune/repack-all-slow/one-blob-packs", false, 10, 10, true, quick.then_some(40)),
        wide_tree_driver("check+prune-plan/wide-tree", if quick { 2 } else { 40 }),
        prune_driver_full("prune/mark-all-forgotten", false, 600, 500, false, None, true),
        copy_driver("copy/one-blob-packs"),
    ];
    if let Some(p) = &args.replay {
        let v: Value = serde_json::from_str(&std::fs::read_to_string(p).unwrap()).unwrap();
        let c = &v["case"];
        let d = drivers.iter().find(|d| Some(d.name) == c["driver"].as_str()).expect("driver");
        let prefix: Vec<vkit::gate::OpDesc> = serde_json::from_value(c["schedule"].clone()).expect("schedule");
        let x = run_gated(&raw, d.stores.clone(), &prefix, false, vec![(d.make)()], oldest_first);
        rep.inc("executions");
        if let Err((sig, msg)) = judge(&raw, d, &x, &mut None) {
            if sig == "INCONCLUSIVE" {
                rep.machinery(msg);
            } else {
                rep.violation(sig, msg, c.clone());
            }
        }
        return;
    }
    for d in &drivers {
        let mut first: Option<(String, BTreeSet<String>)> = None;
        let mut orders: BTreeSet<String> = BTreeSet::new();
        let mut max_width = 0usize;
        let mut midrun_index = false;
        // determinism self-test: the default schedule twice
        let a = run_gated(&raw, d.stores.clone(), &[], false, vec![(d.make)()], oldest_first);
        let b = run_gated(&raw, d.stores.clone(), &[], false, vec![(d.make)()], oldest_first);
        let pa: Vec<_> = a.steps.iter().map(|s| s.pending.clone()).collect();
        let pb: Vec<_> = b.steps.iter().map(|s| s.pending.clone()).collect();
        let deterministic = pa == pb;
        if !deterministic {
            if std::env::var("C13_DEBUG").is_ok() {
                for (i, (x, y)) in pa.iter().zip(&pb).enumerate() {
                    eprintln!("{i} {} | {}", x.iter().map(|o| o.short()).collect::<Vec<_>>().join(","), y.iter().map(|o| o.short()).collect::<Vec<_>>().join(","));
                }
                eprintln!("lens {} {}", pa.len(), pb.len());
            }
            // known source: threads racing for the indexer RwLock while a mid-run index write is parked
            // holding it (DESIGN.md §4.2). Executions are still checked, the driver is not called exhaustive.
            rep.cap(format!("driver {}: pending sets are not reproducible (uncontrolled race on the indexer lock); explored without exhaustiveness claim", d.name));
            rep.inc("nondeterministic_drivers");
        }
        let (execs, capped) = explore(
            bound,
            d.cap.map_or(max_execs, |c| c.min(max_execs)),
            (args.shard, args.nshards),
            |prefix| run_gated(&raw, d.stores.clone(), prefix, false, vec![(d.make)()], oldest_first),
            |prefix, x| {
                rep.inc("executions");
                rep.inc("transitions_steps");
                rep.count("transitions", x.steps.len() as u64);
                rep.inc(&format!("executions:{}", d.name));
                rep.count("divergences", x.divergences as u64);
                for s in &x.steps {
                    max_width = max_width.max(s.pending.len());
                }
                let order: Vec<String> = x.steps.iter().map(|s| s.pending[s.choice].short()).collect();
                _ = orders.insert(order.join(" > "));
                // every node of the schedule tree is a reachable backend state
                for st in &x.outcome[0].states {
                    _ = rep.distinct("state", &canon_store(&raw, &st[0]));
                }
                // mid-run index write before the last pack?
                let muts: Vec<_> = x.outcome[0].log.iter().filter(|o| o.kind.is_mut()).collect();
                if let Some(last_pack) = muts.iter().rposition(|o| o.tpe == FileType::Pack) {
                    if muts[..last_pack].iter().any(|o| o.tpe == FileType::Index) {
                        midrun_index = true;
                    }
                }
                if rep.samples.len() < 3 && prefix.len() >= 1 {
                    rep.sample(json!({"driver": d.name, "schedule": prefix.iter().map(|o| o.short()).collect::<Vec<_>>(), "completion_order": order}));
                }
                if let Err((sig, msg)) = judge(&raw, d, x, &mut first) {
                    if sig == "INCONCLUSIVE" {
                        rep.inc("inconclusive_executions");
                        rep.cap(format!("some executions did not reach quiescence within the time limit and were discarded ({})", msg.chars().take(60).collect::<String>()));
                    } else {
                        rep.violation(sig, msg, json!({"driver": d.name, "schedule": prefix}));
                    }
                }
            },
        );
        if capped {
            rep.cap(format!("driver {}: execution cap {max_execs} reached", d.name));
        }
        rep.max(&format!("width:{}", d.name), max_width as u64);
        rep.max("max_pending_width", max_width as u64);
        rep.count(&format!("orders:{}", d.name), orders.len() as u64);
        for o in &orders {
            _ = rep.distinct("completion_orders", &(d.name, o));
        }
        if midrun_index {
            rep.inc("midrun_index_write");
        }
        _ = execs;
    }
}

/// oracle for one execution; `first` carries the first execution's (result, canonical final store)
fn judge(
    raw: &RawKey,
    d: &Driver,
    x: &Exec<Vec<Outcome>>,
    first: &mut Option<(String, BTreeSet<String>)>,
) -> Result<(), (String, String)> {
    let kind = d.name.split('/').next().unwrap_or("cmd");
    match &x.end {
        RunEnd::Finished => {}
        RunEnd::Deadlock(who) => {
            return Err((format!("C13/deadlock/{kind}"), format!("{}: quiescent with nothing pending but {who:?} unfinished", d.name)));
        }
        // no quiescence within the time limit: under CPU overload a runnable thread can look busy for
        // a long time, so this is inconclusive, not a verdict (a true deadlock - all threads blocked,
        // nothing pending - is the `Deadlock` case above)
        RunEnd::Hang(m) => return Err(("INCONCLUSIVE".into(), format!("{}: {m}", d.name))),
    }
    let o = &x.outcome[0];
    let res = match &o.result {
        Ok(r) => r.clone(),
        Err(e) => return Err((format!("C13/error/{kind}"), format!("{}: command failed: {e}", d.name))),
    };
    // logical content through the independent decoder
    let got = independent_read(raw, &o.store).map_err(|e| (format!("C13/read/{kind}"), format!("{}: {e}", d.name)))?;
    for (l, t) in &d.expect {
        match got.get(l) {
            None => return Err((format!("C13/read/{kind}"), format!("{}: snapshot {l} missing", d.name))),
            Some(g) => {
                if let Some(df) = diff(t, g) {
                    return Err((format!("C13/read/{kind}"), format!("{}: snapshot {l}: {df}", d.name)));
                }
            }
        }
    }
    pack_index_agreement(raw, &o.store).map_err(|e| (format!("C13/pack-index/{kind}"), format!("{}: {e}", d.name)))?;
    // invariance across executions: result (tree id) and the set of referenced blobs
    let blobs: BTreeSet<String> = index_packs(raw, &o.store)
        .unwrap_or_default()
        .iter()
        .filter(|p| !p.marked)
        .flat_map(|p| p.blobs.iter().map(|b| format!("{}:{}", b.tpe, b.id)))
        .collect();
    let res_key = if kind == "backup" { res } else { String::new() };
    match first {
        None => *first = Some((res_key, blobs)),
        Some((r0, b0)) => {
            if *r0 != res_key {
                return Err((format!("C13/tree-id-varies/{kind}"), format!("{}: result {res_key} differs from {r0} of the first execution", d.name)));
            }
            if *b0 != blobs {
                return Err((format!("C13/blob-set-varies/{kind}"), format!("{}: set of indexed blobs differs from the first execution", d.name)));
            }
        }
    }
    Ok(())
}
