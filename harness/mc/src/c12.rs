//! C12 — copy, merge, rewrite and repair preserve all content they keep.

use std::{
    cmp::Ordering,
    collections::{BTreeMap, BTreeSet},
};

use rustic_core::{
    FileType, RepairIndexOptions, RepairSnapshotsOptions, RewriteOptions, RewriteTreesOptions,
    last_modified_node,
    repofile::{Node, SnapshotSummary},
};
use serde_json::{Value, json};
use vkit::{
    backend::Store,
    decode::{RawKey, canon_store, index_packs, open_json, pack_header, seal_json, id_of, hex_id},
    logical::{LNode, LTree, diff, model_tree},
    rep::{Env, backup_with, base_config, bopts, check_errors, master_key, other_master_key, popts, read_all, tiny_config},
    report::{Args, Report},
    source::{Ent, Entry, MemSource},
};

use crate::{c02::T0, c13::lcg};

fn es<T>(what: &str, r: rustic_core::RusticResult<T>) -> Result<T, (String, String)> {
    r.map_err(|e| (format!("C12/{what}/error"), e.display_log()))
}

fn force() -> rustic_core::BackupOptions {
    bopts().parent_opts(popts().force(true))
}

// ------------------------------------------------------------------------------------------------
// copy

fn copy_sources() -> Vec<(String, Entry)> {
    let mut v = Vec::new();
    for i in 0..3usize {
        v.push((format!("c{i}"), crate::c02::source(i)));
    }
    v
}

fn part_copy(raw: &RawKey, rep: &mut Report, args: &Args) {
    // source repository: three snapshots sharing blobs; a second source with a tree/data id collision
    let mk_src = |collide: bool| -> Result<(Env, BTreeMap<String, LTree>), (String, String)> {
        let env = Env::single();
        let mut cfg = if collide { base_config(2) } else { tiny_config(2) };
        cfg.datapack_size = Some(if collide { 10 } else { 500 });
        cfg.datapack_growfactor = Some(0);
        cfg.treepack_size = Some(if collide { 10 } else { 500 });
        cfg.treepack_growfactor = Some(0);
        _ = es("init", env.init_with(cfg))?;
        let mut model = BTreeMap::new();
        for (l, mut t) in copy_sources() {
            if collide {
                if let Some(bytes) = crate::c02::tree_bytes_of(&t, "d1") {
                    t.insert("d4/treecopy", Entry::file(bytes, T0 + 77));
                }
            }
            let repo = es("open", env.open_ids())?;
            _ = es("backup", backup_with(&repo, &MemSource::new("r", t.clone()), &l, T0 + 1000, &force()))?;
            _ = model.insert(l, model_tree("r", &t));
        }
        Ok((env, model))
    };
    let dests: Vec<(&str, Box<dyn Fn() -> Result<Env, (String, String)> + '_>)> = vec![
        ("empty", Box::new(|| {
            let d = Env::single();
            let mut c = tiny_config(2);
            c.id = serde_json::from_value(json!("2".repeat(64))).unwrap();
            _ = es("init", d.init_with(c))?;
            Ok(d)
        })),
        ("holding-some-blobs", Box::new(|| {
            let d = Env::single();
            let mut c = tiny_config(2);
            c.id = serde_json::from_value(json!("2".repeat(64))).unwrap();
            _ = es("init", d.init_with(c))?;
            let repo = es("open", d.open_ids())?;
            _ = es("backup", backup_with(&repo, &MemSource::new("r", crate::c02::source(1)), "pre", T0 + 500, &force()))?;
            Ok(d)
        })),
        // the destination already received these snapshots once, then lost all its data packs (index
        // repaired): every root tree is there, what hangs below is not - copying again must heal it
        ("copied-before-then-lost-data-packs", Box::new(|| {
            let (src, _) = mk_src(false)?;
            let d = Env::single();
            let mut c = tiny_config(2);
            c.id = serde_json::from_value(json!("5".repeat(64))).unwrap();
            _ = es("init", d.init_with(c))?;
            {
                let srcf = es("open", src.open_full())?;
                let snaps = es("snapshots", srcf.get_all_snapshots())?;
                let dd = es("open", d.open_ids())?;
                es("copy", srcf.copy(&dd, snaps.iter()))?;
            }
            let mut st = d.store();
            for (id, _) in d.store().list(FileType::Pack) {
                let data = st.get(FileType::Pack, &id).unwrap().clone();
                if vkit::decode::pack_header(&d.raw, &data).is_ok_and(|h| h.iter().all(|b| b.tpe == 0)) {
                    _ = st.del(FileType::Pack, &id);
                }
            }
            d.set_store(st);
            es("repair-index", es("open", d.open())?.repair_index(&rustic_core::RepairIndexOptions::default(), false))?;
            Ok(d)
        })),
        ("other-key-v1-one-blob-packs", Box::new(|| {
            let d = Env::single().with_key(other_master_key());
            let mut c = tiny_config(1);
            c.id = serde_json::from_value(json!("3".repeat(64))).unwrap();
            c.datapack_size = Some(10);
            c.datapack_growfactor = Some(0);
            c.treepack_size = Some(10);
            c.treepack_growfactor = Some(0);
            _ = es("init", d.init_with(c))?;
            Ok(d)
        })),
        ("other-compression-default-chunker", Box::new(|| {
            let d = Env::single().with_key(other_master_key());
            let mut c = base_config(2);
            c.id = serde_json::from_value(json!("4".repeat(64))).unwrap();
            c.compression = Some(19);
            _ = es("init", d.init_with(c))?;
            Ok(d)
        })),
    ];
    let mut idx = 0usize;
    for collide in [false, true] {
        for (dname, mk) in &dests {
            // (the damaged destination holds the plain sources' snapshots: only they heal it)
            if collide && *dname == "copied-before-then-lost-data-packs" {
                continue;
            }
            // every non-empty subset of the three snapshots
            for mask in 1u32..8 {
                idx += 1;
                if !args.mine(idx) {
                    continue;
                }
                rep.inc("executions");
                rep.inc("copy_cases");
                let case = json!({"part": "copy", "collide": collide, "dest": dname, "snapshot_mask": mask});
                let r = (|| -> Result<(), (String, String)> {
                    let (src, model) = mk_src(collide)?;
                    let dst = mk()?;
                    let before: BTreeSet<String> = index_packs(&dst.raw, &dst.store()).unwrap_or_default().iter().filter(|p| !p.marked).flat_map(|p| p.blobs.iter().map(|b| format!("{}:{}", b.tpe, b.id))).collect();
                    let packs_before = dst.store().list(FileType::Pack).len();
                    let srcf = es("open", src.open_full())?;
                    let snaps: Vec<_> = es("snapshots", srcf.get_all_snapshots())?.into_iter().filter(|s| mask & (1 << (s.label.as_bytes()[1] - b'0')) != 0).collect();
                    let d = es("open", dst.open_ids())?;
                    es("copy", srcf.copy(&d, snaps.iter()))?;
                    rep.inc("transitions");
                    // in the damaged destination the snapshots which are not copied again stay damaged:
                    // only the copied ones are judged, and check only when all were copied
                    let partial_heal = *dname == "copied-before-then-lost-data-packs" && !collide && mask != 7;
                    let got: BTreeMap<String, Result<LTree, String>> = crate::c03::read_state_env(&dst)
                        .map_err(|e| ("C12/copy/read".to_string(), e))?
                        .into_iter()
                        .map(|(_, l, r)| (l, r))
                        .collect();
                    for s in &snaps {
                        match got.get(&s.label) {
                            None => return Err(("C12/copy/content".into(), format!("snapshot {}: missing", s.label))),
                            Some(Err(e)) => return Err(("C12/copy/read".into(), format!("snapshot {}: {e}", s.label))),
                            Some(Ok(g)) => {
                                if let Some(df) = diff(&model[&s.label], g) {
                                    return Err(("C12/copy/content".into(), format!("snapshot {}: {df}", s.label)));
                                }
                            }
                        }
                    }
                    if !partial_heal {
                        if let Some((l, Err(e))) = got.iter().find(|(_, r)| r.is_err()) {
                            return Err(("C12/copy/read".into(), format!("snapshot {l}: {}", e.clone())));
                        }
                        let errs = check_errors(&dst, true).map_err(|e| ("C12/copy/check".to_string(), e))?;
                        if !errs.is_empty() {
                            return Err(("C12/copy/check".into(), errs.join(" | ")));
                        }
                    }
                    // blobs already present are not written again
                    let mut seen = BTreeSet::new();
                    for p in index_packs(&dst.raw, &dst.store()).unwrap_or_default() {
                        for b in &p.blobs {
                            let k = format!("{}:{}", b.tpe, b.id);
                            if !seen.insert(k.clone()) {
                                return Err(("C12/copy/duplicate-blob".into(), format!("blob {k} is stored twice in the destination")));
                            }
                        }
                    }
                    if before.len() > 0 && dst.store().list(FileType::Pack).len() > packs_before {
                        rep.inc("copy_into_nonempty_wrote_packs");
                    }
                    _ = rep.distinct("state", &(collide, dname, mask, canon_store(&dst.raw, &dst.store())));
                    Ok(())
                })();
                if let Err((sig, msg)) = r {
                    let sig = if collide { format!("{sig}[id-collision]") } else { sig };
                    if !rep.has_violation(&sig) {
                        rep.violation(sig, msg, case);
                    }
                }
            }
        }
    }
    let _ = raw;
}

// ------------------------------------------------------------------------------------------------
// merge

#[derive(Clone, Copy, Debug, PartialEq, Eq)]
enum K {
    Absent,
    File1,
    File2,
    Link,
    Dir(u8), // code of the sub-entries: (a, b) each in {absent, file1, file2, link}
}

fn leaf(k: u8) -> Option<Entry> {
    match k {
        1 => Some(Entry::file(b"content one".to_vec(), T0 + 10)),
        2 => Some(Entry::file(b"content two, longer".to_vec(), T0 + 20)),
        3 => Some(Entry::symlink(b"target".to_vec(), T0 + 15)),
        _ => None,
    }
}

fn build(ka: K, kb: K) -> Entry {
    let mut t = Entry::dir(T0);
    for (name, k) in [("a", ka), ("b", kb)] {
        match k {
            K::Absent => {}
            K::File1 => t.insert(name, leaf(1).unwrap()),
            K::File2 => t.insert(name, leaf(2).unwrap()),
            K::Link => t.insert(name, leaf(3).unwrap()),
            K::Dir(code) => {
                let mut d = Entry::dir(T0 + 12 + i64::from(code % 3) * 5);
                for (sn, c) in [("a", code % 4), ("b", code / 4)] {
                    if let Some(e) = leaf(c) {
                        d.insert(sn, e);
                    }
                }
                t.insert(name, d);
            }
        }
    }
    t
}

fn kinds(thorough: bool) -> Vec<K> {
    let mut v = vec![K::Absent, K::File1, K::File2, K::Link];
    let codes: Vec<u8> = if thorough { (0..16).collect() } else { vec![0, 1, 6, 11, 13] };
    v.extend(codes.into_iter().map(K::Dir));
    v
}

/// is `res` a valid merge of `inputs` under `cmp_kind`? (ties: any maximal candidate)
fn valid_merge(inputs: &[&Entry], res: &LTree, prefix: &[u8], cmp_kind: usize) -> Result<(), String> {
    let mut names: BTreeSet<Vec<u8>> = BTreeSet::new();
    for i in inputs {
        if let Some(c) = i.children() {
            names.extend(c.keys().cloned());
        }
    }
    // names at this level in the result
    let res_names: BTreeSet<Vec<u8>> = res
        .keys()
        .filter(|p| p.starts_with(prefix) && p.len() > prefix.len() && !p[prefix.len()..].contains(&b'/'))
        .map(|p| p[prefix.len()..].to_vec())
        .collect();
    if res_names != names {
        return Err(format!("below {:?}: result has names {:?}, union is {:?}", String::from_utf8_lossy(prefix), res_names.iter().map(|n| String::from_utf8_lossy(n).to_string()).collect::<Vec<_>>(), names.iter().map(|n| String::from_utf8_lossy(n).to_string()).collect::<Vec<_>>()));
    }
    for name in names {
        let cands: Vec<&Entry> = inputs.iter().filter_map(|i| i.children().and_then(|c| c.get(&name))).collect();
        let key = |e: &Entry| e.meta.mtime.unwrap_or(0);
        let best: Vec<&Entry> = match cmp_kind {
            0 => {
                let m = cands.iter().map(|e| key(e)).max().unwrap();
                cands.iter().copied().filter(|e| key(e) == m).collect()
            }
            1 => {
                let m = cands.iter().map(|e| key(e)).min().unwrap();
                cands.iter().copied().filter(|e| key(e) == m).collect()
            }
            _ => cands.clone(),
        };
        let mut path = prefix.to_vec();
        path.extend_from_slice(&name);
        let got = &res[&path];
        let matches = |e: &Entry| -> bool {
            let m = model_tree("x", e);
            let n = &m[&b"x"[..]];
            n.kind == got.kind && n.mtime == got.mtime && n.mode == got.mode && n.target == got.target && (n.kind != "file" || (n.sha == got.sha && n.size == got.size))
        };
        if !best.iter().any(|e| matches(e)) {
            return Err(format!("{:?}: result node {:?} is none of the maximal candidates", String::from_utf8_lossy(&path), got));
        }
        if got.kind == "dir" {
            let dirs: Vec<&Entry> = cands.iter().copied().filter(|e| matches!(e.ent, Ent::Dir(_))).collect();
            let mut p2 = path.clone();
            p2.push(b'/');
            valid_merge(&dirs, res, &p2, cmp_kind)?;
        } else if res.keys().any(|p| p.starts_with(&path) && p.len() > path.len() && p[path.len()] == b'/') {
            return Err(format!("{:?} is not a directory but has entries below it", String::from_utf8_lossy(&path)));
        }
    }
    Ok(())
}

fn part_merge(rep: &mut Report, args: &Args) {
    let thorough = !args.quick();
    let ks = kinds(thorough);
    let mut trees: Vec<Entry> = Vec::new();
    for a in &ks {
        for b in &ks {
            trees.push(build(*a, *b));
        }
    }
    // one repository holding all trees
    let env = Env::single();
    _ = env.init_with(tiny_config(2)).expect("init");
    let mut ids = Vec::new();
    {
        let repo = env.open_ids().expect("open");
        for (i, t) in trees.iter().enumerate() {
            let s = backup_with(&repo, &MemSource::new("r", t.clone()), &format!("m{i}"), T0 + 1000, &force()).expect("backup");
            // tree of the directory r
            ids.push(s.tree);
        }
    }
    let base = env.store();
    let cmps: [(&str, Box<dyn Fn(&Node, &Node) -> Ordering>); 3] = [
        ("last-modified", Box::new(last_modified_node)),
        ("first-modified", Box::new(|a: &Node, b: &Node| last_modified_node(a, b).reverse())),
        ("always-equal", Box::new(|_: &Node, _: &Node| Ordering::Equal)),
    ];
    let n = trees.len();
    let mut groups: Vec<Vec<usize>> = Vec::new();
    for i in 0..n {
        for j in 0..n {
            groups.push(vec![i, j]);
        }
    }
    // triples over a representative subset
    let reps: Vec<usize> = (0..n).filter(|i| if thorough { i % 5 == 0 } else { i % 9 == 0 }).collect();
    for &i in &reps {
        for &j in &reps {
            for &k in &reps {
                groups.push(vec![i, j, k]);
            }
        }
    }
    rep.note(format!("merge: {} trees, {} groups x 3 orderings", n, groups.len()));
    for (gi, g) in groups.iter().enumerate() {
        if !args.mine(gi) {
            continue;
        }
        if rep.over_budget() {
            return;
        }
        for (ci, (cname, cmp)) in cmps.iter().enumerate() {
            rep.inc("executions");
            rep.inc("merge_cases");
            let e2 = env.fork(base.clone());
            let case = json!({"part": "merge", "trees": g, "cmp": cname});
            let r = (|| -> Result<(), (String, String)> {
                let repo = es("open", e2.open_full())?;
                let mut summary = SnapshotSummary::default();
                let tids: Vec<_> = g.iter().map(|i| ids[*i]).collect();
                let merged = es("merge", repo.merge_trees(&tids, cmp, &mut summary))?;
                rep.inc("transitions");
                // read the merged tree with a fresh handle
                let fresh = es("open", e2.open_full())?;
                let mut node = Node::new_node(std::ffi::OsStr::new("root"), rustic_core::repofile::NodeType::Dir, rustic_core::repofile::Metadata::default());
                node.subtree = Some(merged);
                let mut res = LTree::new();
                let ls = es("ls", fresh.ls(&node, &rustic_core::LsOptions::default().recursive(true)))?;
                for item in ls {
                    let (p, nd) = es("ls", item)?;
                    use std::os::unix::ffi::OsStrExt;
                    let content = if nd.is_file() {
                        let mut buf = Vec::new();
                        es("dump", fresh.dump(&nd, &mut buf))?;
                        Some(buf)
                    } else {
                        None
                    };
                    _ = res.insert(p.as_os_str().as_bytes().to_vec(), vkit::logical::lnode_of(&nd, content.as_deref()));
                }
                // the snapshot trees have the single top entry `r`
                let inputs: Vec<Entry> = g
                    .iter()
                    .map(|i| {
                        let mut top = Entry::dir(T0);
                        top.insert("r", trees[*i].clone());
                        top
                    })
                    .collect();
                let refs: Vec<&Entry> = inputs.iter().collect();
                valid_merge(&refs, &res, b"", ci).map_err(|m| (format!("C12/merge/{cname}"), m))?;
                if res.len() > 2 {
                    _ = rep.distinct("state", &(g, cname));
                }
                Ok(())
            })();
            if let Err((sig, msg)) = r {
                if !rep.has_violation(&sig) {
                    rep.violation(sig, msg, case);
                }
            }
        }
        if rep.samples.len() < 2 && g.len() == 3 {
            rep.sample(json!({"part": "merge", "trees": g}));
        }
    }
}

// ------------------------------------------------------------------------------------------------
// rewrite

fn rewrite_trees() -> Vec<Entry> {
    let mut v = Vec::new();
    let mut t = Entry::dir(T0);
    t.insert("a", Entry::file(lcg(1, 100), T0 + 1));
    t.insert("b.x", Entry::file(lcg(2, 50), T0 + 2));
    t.insert("d/keep", Entry::file(lcg(3, 70), T0 + 3));
    t.insert("d/other.x", Entry::file(lcg(4, 30), T0 + 4));
    t.insert("d/sub/deep", Entry::file(lcg(5, 20), T0 + 5));
    t.insert("l", Entry::symlink(b"a".to_vec(), T0 + 6));
    v.push(t.clone());
    let mut t2 = t.clone();
    _ = t2.remove("d");
    t2.insert("a.x/inner", Entry::file(lcg(6, 10), T0 + 7));
    v.push(t2);
    let mut t3 = Entry::dir(T0);
    t3.insert("d/only", Entry::file(lcg(7, 10), T0 + 8));
    v.push(t3);
    // twin directories: p and q (and p/sub, q/sub) are stored as one tree blob each, reachable at
    // two paths - a path-anchored glob must take effect at the named place only
    let mut t4 = Entry::dir(T0);
    for d in ["p", "q"] {
        t4.insert(&format!("{d}/sub/secret"), Entry::file(lcg(8, 40), T0 + 9));
        t4.insert(&format!("{d}/sub/plain"), Entry::file(lcg(9, 40), T0 + 9));
        t4.insert(&format!("{d}/top"), Entry::file(lcg(10, 40), T0 + 9));
    }
    t4.insert("a", Entry::file(lcg(1, 100), T0 + 1));
    v.push(t4);
    // names differing from the patterns (and from their neighbours) in letter case only: the
    // case-sensitive ways of passing a pattern must leave them, the case-insensitive ones take them
    let mut t5 = t.clone();
    t5.insert("A", Entry::file(lcg(11, 30), T0 + 10));
    t5.insert("B.X", Entry::file(lcg(12, 30), T0 + 10));
    t5.insert("D/keep2", Entry::file(lcg(13, 30), T0 + 10));
    t5.insert("d/Other.X", Entry::file(lcg(14, 30), T0 + 10));
    v.push(t5);
    v
}

/// the four ways of handing a pattern to the library
const VIA: [&str; 4] = ["globs", "iglobs", "glob_files", "iglob_files"];

const GLOBS: [&str; 6] = ["!/r/a", "!/r/d/*", "!*.x", "!/r/d", "!/r/p/sub/secret", "!/r/q/sub/secret"];

/// reference: is the path (relative to r, with its kind) excluded by the glob?
fn excluded(glob: &str, rel: &str) -> bool {
    let comps: Vec<&str> = rel.split('/').collect();
    match glob {
        "!/r/a" => comps[0] == "a",
        "!/r/d/*" => comps[0] == "d" && comps.len() >= 2,
        "!*.x" => comps.iter().any(|c| c.ends_with(".x")),
        "!/r/d" => comps[0] == "d",
        "!/r/p/sub/secret" => rel == "p/sub/secret",
        "!/r/q/sub/secret" => rel == "q/sub/secret",
        _ => false,
    }
}

fn part_rewrite(rep: &mut Report, args: &Args) {
    let trees = rewrite_trees();
    let mut sets: Vec<Vec<&str>> = vec![vec![]];
    for (i, g) in GLOBS.iter().enumerate() {
        sets.push(vec![g]);
        for h in GLOBS.iter().skip(i + 1) {
            sets.push(vec![g, h]);
        }
    }
    let mut idx = 0usize;
    for (ti, t) in trees.iter().enumerate() {
        for set in &sets {
            for (forget, via) in [(false, 0usize), (true, 0), (false, 1), (true, 1), (false, 2), (false, 3)] {
                idx += 1;
                if !args.mine(idx) {
                    continue;
                }
                if via > 0 && set.is_empty() {
                    continue;
                }
                let ci = via % 2 == 1;
                rep.inc("executions");
                rep.inc("rewrite_cases");
                rep.inc(&format!("rewrite_via:{}", VIA[via]));
                let case = json!({"part": "rewrite", "tree": ti, "globs": set, "forget": forget, "via": VIA[via]});
                let r = (|| -> Result<(), (String, String)> {
                    let env = Env::single();
                    _ = es("init", env.init_with(tiny_config(2)))?;
                    let repo = es("open", env.open_ids())?;
                    _ = es("backup", backup_with(&repo, &MemSource::new("r", t.clone()), "orig", T0 + 1000, &force()))?;
                    let orig = model_tree("r", t);
                    let full = es("open", env.open_full())?;
                    let snaps = es("snapshots", full.get_all_snapshots())?;
                    let mut topts = RewriteTreesOptions::default();
                    let pats: Vec<String> = set.iter().map(ToString::to_string).collect();
                    let file = std::env::temp_dir().join(format!("verif-c12-{}-{idx}.glob", std::process::id()));
                    match via {
                        0 => topts.excludes.globs = pats,
                        1 => topts.excludes.iglobs = pats,
                        _ => {
                            std::fs::write(&file, pats.join("\n") + "\n").expect("scratch glob file (machinery)");
                            let f = vec![file.to_string_lossy().to_string()];
                            if via == 2 { topts.excludes.glob_files = f } else { topts.excludes.iglob_files = f }
                        }
                    }
                    let out = full.rewrite_snapshots_and_trees(snaps, &RewriteOptions::default().forget(forget), &topts);
                    _ = std::fs::remove_file(&file);
                    let out = es("rewrite", out)?;
                    rep.inc("transitions");
                    // expected content
                    let mut want = LTree::new();
                    for (p, n) in &orig {
                        let ps = String::from_utf8_lossy(p).to_string();
                        let rel = ps.strip_prefix("r/").unwrap_or("");
                        let rel_cmp = if ci { rel.to_lowercase() } else { rel.to_string() };
                        if !rel.is_empty() && set.iter().any(|g| excluded(g, &rel_cmp)) {
                            continue;
                        }
                        _ = want.insert(p.clone(), n.clone());
                    }
                    let changed = want != orig;
                    let got = crate::c03::read_state(&env.store()).map_err(|e| ("C12/rewrite/read".to_string(), e))?;
                    let trees_got: Vec<&LTree> = got.iter().filter_map(|(_, r)| r.as_ref().ok()).collect();
                    if trees_got.len() != got.len() {
                        return Err(("C12/rewrite/unreadable".into(), "a snapshot is unreadable after rewrite".into()));
                    }
                    let has = |t: &LTree| trees_got.iter().any(|g| diff(t, g).is_none());
                    if changed {
                        if !has(&want) {
                            return Err(("C12/rewrite/content".into(), format!("no snapshot has the expected content (source minus excluded paths); got {:?}", trees_got.iter().map(|t| t.keys().map(|k| String::from_utf8_lossy(k).to_string()).collect::<Vec<_>>()).collect::<Vec<_>>())));
                        }
                        if forget == has(&orig) {
                            return Err(("C12/rewrite/original".into(), format!("forget={forget} but the original snapshot is present: {}", has(&orig))));
                        }
                        if out.len() != 1 {
                            return Err(("C12/rewrite/count".into(), format!("{} snapshots reported as rewritten", out.len())));
                        }
                    } else {
                        // (a snapshot whose summary is recomputed may be saved again; its content must not differ)
                        if !has(&orig) || trees_got.iter().any(|g| diff(&orig, g).is_some()) {
                            return Err(("C12/rewrite/unchanged".into(), "a rewrite that excludes nothing changed the content of a snapshot".into()));
                        }
                    }
                    _ = rep.distinct("state", &(ti, set, forget, via));
                    Ok(())
                })();
                if let Err((sig, msg)) = r {
                    if !rep.has_violation(&sig) {
                        rep.violation(sig, msg, case);
                    }
                }
            }
        }
    }
}

// ------------------------------------------------------------------------------------------------
// repair

fn part_repair(raw: &RawKey, rep: &mut Report, args: &Args) {
    // base repository: two snapshots, one-blob packs (each blob is a pack)
    let mk = || -> (Env, BTreeMap<String, LTree>) {
        let env = Env::single();
        let mut cfg = tiny_config(2);
        cfg.datapack_size = Some(10);
        cfg.datapack_growfactor = Some(0);
        cfg.treepack_size = Some(10);
        cfg.treepack_growfactor = Some(0);
        _ = env.init_with(cfg).expect("init");
        let mut model = BTreeMap::new();
        for v in 0..2 {
            let repo = env.open_ids().expect("open");
            // (with an empty directory sorting after all others: its tree is what a lost tree is replaced by)
            let mut t = crate::c02::source(v);
            t.insert("zz_empty", Entry::dir(T0 + 9));
            _ = backup_with(&repo, &MemSource::new("r", t.clone()), &format!("s{v}"), T0 + 1000 + v as i64, &force()).expect("backup");
            _ = model.insert(format!("s{v}"), model_tree("r", &t));
        }
        (env, model)
    };
    let (base, model) = mk();
    let base_store = base.store();
    // undamaged: repair changes nothing and writes nothing
    if args.shard == 0 {
        rep.inc("executions");
        let env = base.fork(base_store.clone());
        let r = (|| -> Result<(), (String, String)> {
            let repo = es("open", env.open_full())?;
            let snaps = es("snapshots", repo.get_all_snapshots())?;
            env.world.lock().unwrap().reset_log();
            es("repair", repo.repair_snapshots(&RepairSnapshotsOptions::default(), snaps, false))?;
            let muts = env.world.lock().unwrap().log.iter().filter(|o| o.kind.is_mut()).count();
            if muts > 0 || !env.store().same_content(&base_store) {
                return Err(("C12/repair/undamaged-changed".into(), format!("repair of an undamaged repository issued {muts} mutating calls")));
            }
            Ok(())
        })();
        if let Err((sig, msg)) = r {
            rep.violation(sig, msg, json!({"part": "repair", "damage": "none"}));
        }
    }
    // damages: every single pack removed; every single blob entry dropped from the index
    #[derive(Clone, Debug)]
    enum Damage {
        Pack(usize),
        IndexBlob(usize, usize, usize),
    }
    let mut damages: Vec<Damage> = (0..base_store.list(FileType::Pack).len()).map(Damage::Pack).collect();
    for (fi, (id, _)) in base_store.list(FileType::Index).iter().enumerate() {
        let j = open_json(raw, base_store.get(FileType::Index, id).unwrap()).unwrap();
        for (pi, p) in j["packs"].as_array().unwrap().iter().enumerate() {
            for bi in 0..p["blobs"].as_array().unwrap().len() {
                damages.push(Damage::IndexBlob(fi, pi, bi));
            }
        }
    }
    for (di, dmg) in damages.iter().enumerate() {
        for delete in [true, false] {
            if !args.mine(di * 2 + usize::from(delete)) {
                continue;
            }
            rep.inc("executions");
            rep.inc("repair_cases");
            let case = json!({"part": "repair", "damage": format!("{dmg:?}"), "delete": delete});
            let r = (|| -> Result<(), (String, String)> {
                let mut st: Store = base_store.clone();
                let mut lost_tree = false;
                match dmg {
                    Damage::Pack(i) => {
                        let (id, _) = st.list(FileType::Pack)[*i];
                        lost_tree = pack_header(raw, st.get(FileType::Pack, &id).unwrap()).is_ok_and(|h| h.iter().any(|b| b.tpe == 1));
                        _ = st.del(FileType::Pack, &id);
                    }
                    Damage::IndexBlob(fi, pi, bi) => {
                        let (id, _) = st.list(FileType::Index)[*fi];
                        let mut j = open_json(raw, st.get(FileType::Index, &id).unwrap()).unwrap();
                        let blobs = j["packs"][*pi]["blobs"].as_array_mut().unwrap();
                        lost_tree = blobs[*bi]["type"].as_str() == Some("tree");
                        _ = blobs.remove(*bi);
                        let sealed = seal_json(raw, &j, 31337);
                        _ = st.del(FileType::Index, &id);
                        st.put(FileType::Index, &id_of(&sealed), sealed.into());
                    }
                }
                let env = base.fork(st);
                if matches!(dmg, Damage::Pack(_)) {
                    es("repair-index", es("open", env.open())?.repair_index(&RepairIndexOptions::default(), false))?;
                }
                let n_before = env.store().list(FileType::Snapshot).len();
                let ids_before: BTreeSet<String> = env.store().ids(FileType::Snapshot).iter().map(hex_id).collect();
              // the repair is run twice: the second run meets the snapshots the first one wrote (and, without
              // delete, the damaged originals again)
              for round in 0..2 {
                let repo = es("open", env.open_full())?;
                let snaps = es("snapshots", repo.get_all_snapshots())?;
                es("repair", repo.repair_snapshots(&RepairSnapshotsOptions::default().delete(delete), snaps, false))?;
                rep.inc("transitions");
                if round == 1 {
                    rep.inc("repeated_repairs");
                }
                // every snapshot that is new must be completely readable; files without the suffix have their original content
                let got = crate::c03::read_state_ids(&env.store()).map_err(|e| ("C12/repair/read".to_string(), e))?;
                let mut new_snaps = 0;
                for (id, label, res) in &got {
                    let is_new = !ids_before.contains(id);
                    if !is_new {
                        if delete && res.is_err() {
                            return Err(("C12/repair/damaged-original-kept".into(), format!("delete was requested but the damaged snapshot {label} is still present")));
                        }
                        continue;
                    }
                    new_snaps += 1;
                    let t = res.as_ref().map_err(|e| ("C12/repair/new-snapshot-unreadable".to_string(), format!("repaired snapshot {label}: {e}")))?;
                    let orig = &model[label];
                    for (p, n) in t {
                        let ps = String::from_utf8_lossy(p).to_string();
                        if ps.split('/').any(|c| c.ends_with(".repaired")) {
                            rep.inc("repaired_marked_entries");
                            continue;
                        }
                        match orig.get(p) {
                            None => return Err(("C12/repair/invented-path".into(), format!("{label}: {ps} does not exist in the original"))),
                            Some(o) if n.kind == "file" && (o.sha != n.sha || o.size != n.size) => {
                                return Err(("C12/repair/unmarked-file-changed".into(), format!("{label}: {ps} is not marked but its content differs from the original")));
                            }
                            _ => {}
                        }
                    }
                    // every original path is present, present with the suffix, or below a lost tree
                    for p in orig.keys() {
                        let ps = String::from_utf8_lossy(p).to_string();
                        let marked = format!("{ps}.repaired").into_bytes();
                        if !t.contains_key(p) && !t.contains_key(&marked) && !lost_tree {
                            return Err(("C12/repair/path-lost".into(), format!("{label}: {ps} vanished although no tree was lost")));
                        }
                    }
                }
                if !delete && env.store().list(FileType::Snapshot).len() < n_before {
                    return Err(("C12/repair/original-removed-without-delete".into(), "a snapshot was removed although delete was not requested".into()));
                }
                if new_snaps > 0 && round == 0 {
                    rep.inc("repairs_with_new_snapshots");
                }
              }
                _ = rep.distinct("state", &(format!("{dmg:?}"), delete));
                let _: Option<LNode> = None;
                Ok(())
            })();
            if let Err((sig, msg)) = r {
                if !rep.has_violation(&sig) {
                    rep.violation(sig, msg, case);
                }
            }
        }
    }
}

pub fn run(args: &Args, rep: &mut Report) {
    let raw = RawKey::from_master(&master_key());
    std::panic::set_hook(Box::new(|_| {}));
    rep.set_meta("bounds", json!("copy: 2 source repositories (one with tree/data id collisions) x 5 destinations (empty, holding some blobs, holding the same snapshots after the loss of all data packs, other key + repo v1 + one-blob packs, other key + compression 19 + default chunker) x every non-empty subset of 3 snapshots; merge: all pairs (and triples over a subset) of trees with entries a,b of kind {absent, file v1, file v2, symlink, dir with sub-entries} x 3 orderings; rewrite: 4 trees (one with twin directories sharing their tree blobs) x every glob set of size <= 2 over 6 exclude globs (two anchored at one twin) x forget; repair: undamaged + every single pack removed + every single blob entry dropped from the index, x delete, each repaired twice in a row"));
    if args.replay.is_some() {
        rep.note("replay re-runs the complete check (all parts are small)");
    }
    part_copy(&raw, rep, args);
    part_merge(rep, args);
    part_rewrite(rep, args);
    part_repair(&raw, rep, args);
    let _ = Value::Null;
}
