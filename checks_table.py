"""Per-property configuration of the checks (single source for ./check and MANIFEST.json)."""

CHECKS = {}
NOT_APPLICABLE = []


def add(pid, **kw):
    kw.setdefault("bin", "mc")
    kw.setdefault("pin", True)
    kw.setdefault("rayon_threads", 1)
    kw.setdefault("assumptions", [])
    CHECKS[pid] = kw


add("C09",
    engine="ENUM",
    level="exploration",
    technique="bounded exhaustive enumeration of inputs (small-scope) against a reference model",
    design_ref="DESIGN.md §4.5, §5 C09",
    level_text="Every sub-multiset (size<=4 quick / <=5 thorough) of 16 boundary-dense instants in 3 time zones, "
               "crossed with every single keep counter in {-1,0,1,2,3}, every keep-within span in 6 spans, option pairs, "
               "tags/ids/delete marks, is run through the real KeepOptions::apply and compared with a literal reference "
               "implementation of the documented rules; monotonicity in N is checked on every case.",
    level_note="Trusts jiff's civil-calendar arithmetic (used by both sides) and the transcription of the rules in c09.rs; "
               "equal-time ties are only generated as fully identical snapshots.",
    shards={"quick": 16, "thorough": 16},
    )

add("C06",
    engine="ENUM",
    level="exploration",
    technique="bounded exhaustive enumeration of inputs and read-fragmentation deviations against an independent bit-serial Rabin reference",
    design_ref="DESIGN.md §4.5, §5 C06",
    level_text="For every accepted (polynomial, size, min, max) of a grid incl. the smallest accepted values and for fixed-size chunkers, "
               "every stream length 0..3*max+70 of nine stream families (constant, periodic, LCG, adversarially boundary-dense) is chunked by the "
               "real chunker under every single short-read / Interrupted deviation, all-1-byte reads and strides, and compared with an independent "
               "bit-serial polynomial-reduction reference; concatenation, bounds and suffix re-synchronisation are checked on each.",
    level_note="Reaches the crate-private chunker through the verif hook `verif::chunk_iter` (same constructor the archiver uses). "
               "Streams are bounded by 3*max+70 bytes; for parameters with max > 700 only boundary lengths are enumerated.",
    shards={"quick": 16, "thorough": 16},
    )

add("C02",
    engine="SEQ",
    level="model_checking",
    technique="explicit-state BFS over operation histories of the real commands with canonical-state de-duplication",
    design_ref="DESIGN.md §4.1, §5 C02",
    level_text="Breadth-first search to depth 3 (quick) / 4 (thorough) over {backup of an evolving source, backup through a stale handle, "
               "forget of every non-empty subset, prune with 10/25 option vectors (incl. early index deletion), forget+prune at once through `ignore_snaps`, clock ticks of 1 h and 24 h, duplicated index file, reversed listing} "
               "from three initial repository states (empty; two snapshots one forgotten; plus an unreferenced pack). Every transition runs the real command on fresh handles; "
               "in every distinct canonical state all live snapshots are read back through the API and through an independent decoder and compared with the source model, "
               "marked packs must exist, and (thorough) check --read-data must be clean. "
               "The search is repeated with prune's small-index threshold (10 000 blobs) lowered to 1 through a hook, so that index files are rewritten only when they change, as in a repository of realistic size.",
    level_note="Depth and alphabet are bounded as stated; the clock is the verif hook offset; canonical states drop random ids, so two stores that differ only in ids are merged. "
               "Snapshots written by a stale handle are exempt until the next prune (that is C10's subject).",
    shards={"quick": 16, "thorough": 16},
    require_counts=["todo:Keep", "todo:Repack", "todo:MarkDelete", "todo:KeepMarked", "todo:Delete", "todo:Recover", "todo:unreferenced-pack", "stale_backup_needs_recover"],
    )

add("C13",
    engine="SCHED",
    level="model_checking",
    technique="stateless exhaustive exploration of completion orders of concurrent backend calls (deviation-bounded DFS under a controlled gate scheduler)",
    design_ref="DESIGN.md §4.2, §5 C13",
    level_text="Every backend call of the real command parks at a gate; after each release the whole process is run to quiescence (all threads asleep, no CPU time consumed), "
               "so the parked calls are exactly the enabled transitions. All completion orders with <=2 (quick) / <=3 (thorough) deviations from oldest-first are executed for backup "
               "(one-blob packs with mid-run index saves, 3-blob packs, default packs), prune with repacking (fast and re-encoding; also repack-all over one-blob packs, which fills the pack writer pipeline), check + prune plan over a root directory with 300 distinct sub-directories (hundreds of tree ids queued in the parallel tree streamer) and copy; across all executions the tree id and "
               "the set of indexed blobs must be identical, every final state must read back to the source through an independent decoder with packs and index agreeing, "
               "and quiescence with nothing pending while the command has not returned is reported as deadlock.",
    level_note="Granularity is the backend call: interleavings inside crossbeam/pariter/rayon are not enumerated (loom/shuttle cannot intercept them, DESIGN.md §8). "
               "The driver with mid-run index saves has an uncontrolled race on the indexer lock; its executions are checked but it is reported as not exhaustive. One CPU (pariter window 2), RAYON_NUM_THREADS=1.",
    shards={"quick": 16, "thorough": 16},
    require_counts=["midrun_index_write", "executions:prune/repack-slow", "executions:prune/repack-all-fast/one-blob-packs", "executions:check+prune-plan/wide-tree", "executions:copy/one-blob-packs"],
    require_max={"max_pending_width": 2},
    variants=[{"name": "1cpu-rayon1", "rayon": 1, "cpus": 1}, {"name": "2cpu-rayon3", "rayon": 3, "cpus": 2}],
    )

add("C03",
    engine="CRASH",
    level="fault_enumeration",
    technique="exhaustive crash-point and single-failure enumeration over explored linearisations of the real commands (gate scheduler + recording store)",
    design_ref="DESIGN.md §4.3, §5 C03",
    level_text="For 21 command scenarios (backup with parent and mid-run index saves, copy into a non-empty repository, merge, rewrite+forget, repair snapshots after a pack loss, "
               "repair index default/read-all/after index loss, forget, nine prune variants (incl. repacked tree packs and early-delete-index set without instant-delete, which is documented to have no effect alone), config change, key add/delete) the store is snapshotted after every mutating backend call of the "
               "default linearisation and of every linearisation with <=2 (quick) / <=3 (thorough) completion-order deviations; on every distinct crash state a fresh uncached handle must open the repository "
               "and read every visible snapshot completely with an acceptable (old or new) content. Additionally every mutating call index is made to fail once: the command must return Err, terminate, and leave such a state.",
    level_note="Crash = loss of all calls after a prefix of the observed linearisation (backend calls are atomic, as with rename-publishing backends, C20). Snapshots that were already unreadable before the command are exempt by id. "
               "Hot/cold interruption is C16.",
    shards={"quick": 16, "thorough": 16},
    require_counts=["linearisations:backup-with-parent", "linearisations:prune-repack-slow", "linearisations:prune-early-delete-index-alone", "failed_call_runs", "crash_states"],
    )

add("C10",
    engine="SCHED",
    level="model_checking",
    technique="stateless exploration of all interleavings of two real commands at backend-call granularity with bounded command switches (gate scheduler)",
    design_ref="DESIGN.md §4.2, §5 C10",
    level_text="Two real commands (backup vs prune mark-only / repack fast / repack slow, backup vs backup; either one first) run on their own handles behind one gate; "
               "every schedule with <=2 (quick) / <=3 (thorough) command switches placed at any backend call - including the index reads and listings - is executed. "
               "After each, one hour passes, a further prune runs on a fresh handle and every snapshot of a successful command must read back to its source through the independent decoder "
               "(thorough: check --read-data clean). The run must contain executions in which the late backup depends on packs marked meanwhile and the follow-up prune recovers them, "
               "and the built-in out-of-proviso control (second prune after keep-delete while the backup is still running) must lose data.",
    level_note="Granularity is the backend call; both commands share the process (rayon pool of 4 threads). Replayed prefixes that diverge because of races inside the pipelines are counted and make the run non-exhaustive, "
               "they are still checked. Proviso of the statement (keep-delete exceeds the backup's duration) is kept by the hooked clock.",
    shards={"quick": 16, "thorough": 16},
    rayon_threads=4,
    require_counts=["needs_recover_before_followup_prune", "followup_prune_recovered_packs", "control_data_loss_executions", "executions:backup||backup"],
    )

add("C17",
    engine="ENUM",
    level="exploration",
    technique="bounded exhaustive enumeration of index-file collections against a map reference model",
    design_ref="DESIGN.md §4.5, §5 C17",
    level_text="Every assignment of {absent, (tree|data) x every blob multiset over ids {x,y,z} incl. an id twice and unsorted order x marked/unmarked} to three packs, "
               "every split of the listings over two index files and a repeated listing, is loaded into the real index in all three modes (full, data-ids, only-trees) through the verif hook; "
               "every (type,id) presence query, lookup, size total and the pack iteration are compared with a map model built from the unmarked listings. A two-pack slice is additionally written "
               "(independently encrypted) to a store and queried through a real repository handle.",
    level_note="Ids, lengths and pack counts are tiny by construction (3 ids, 3 packs, 2 files); mixed-type packs are not generated (the library never writes them).",
    shards={"quick": 16, "thorough": 16},
    require_counts=["end_to_end_cases"],
    )

add("C08",
    engine="SEQ",
    level="exploration",
    technique="bounded exhaustive enumeration: configuration grid x scripted histories of every pack writer, independent decoding of every pack, every subset of index files removed before repair-index",
    design_ref="DESIGN.md §4.1, §5 C08",
    level_text="For each configuration of a grid (repo v1 / v2 default compression / v2 uncompressed / v2 level 19; one-blob, 300 B and 4 MiB packs; tiny and default chunker; plus four v2 configurations whose compression is switched through apply_config between two backups, so that the fast repack merges compressed and uncompressed blobs - 41 and 37 byte header entries - into the same packs) one history runs every pack writer "
               "(backup, prune with re-encoding, fast and uncompressed repack, merge, rewrite, copy into a repository with another key and configuration, repair snapshots). After every step every pack in the store "
               "is decoded by an independent parser: name = sha256, trailer/header lengths, entries in file order with contiguous offsets, each blob decrypts, inflates to the recorded length and hashes to its id, "
               "and the (id,type,offset,length,uncompressed length) sequence and size equal every index entry of that pack. At three points every non-empty subset of index files is removed; repair-index must succeed, "
               "all snapshots must read back to the source model, packs and index must agree again and check must be clean.",
    level_note="Histories are fixed scripts (the state space of histories is C02's subject); the grid bounds blob sizes to what tiny chunker parameters and a 1.2 KiB source produce.",
    shards={"quick": 16, "thorough": 16},
    require_counts=["index_subsets_removed", "packs_verified", "packs_mixing_encodings", "compression_switched"],
    )

add("C07",
    engine="SEQ",
    level="model_checking",
    technique="explicit-state BFS over edit scripts between real backups, compared with an independent reference chunker",
    design_ref="DESIGN.md §4.1, §5 C07",
    level_text="Breadth-first search (depth 3 quick / 4 thorough after an initial backup) over 16 edits {none, touch, prepend 1/64 bytes, insert at a chunk boundary / mid-chunk, delete a range, overwrite a range, duplicate file, rename, "
               "move directory, add a file equal to one chunk, add a file equal to a serialised tree, revert the previous edit, touch a directory, add twin files (index flushed after every second blob), and - as a probe at depth <= 2 whose effect is discarded - add twin files separated by 400 pack-filling files, more than all bounded in-order buffers between the walk and the indexer can hold, so that the first copy is indexed before the second arrives on every schedule} from three base sources (multi-chunk, shared region, repetitive). Every transition is one real backup through a fresh handle; "
               "the data blobs in the packs it wrote must equal exactly {chunks of the new source by an independent bit-serial Rabin chunker} minus {data blobs indexed before}, written trees must be new and referenced, "
               "an unchanged source must write no pack and keep the tree id, summary counters must equal what the packs hold, and a data blob sharing its id with a tree must be stored next to it.",
    level_note="Tiny chunker parameters (64/64/256) make 3 KiB files multi-chunk; the default chunker is used where a whole file must be one chunk. Trees are compared by reference structure, not re-serialised independently.",
    shards={"quick": 16, "thorough": 16},
    require_counts=["unchanged_backups", "edits_with_reused_chunks", "edits_resynchronised_after_change", "tree_data_id_collisions_kept", "far_twins_probes"],
    )

add("C11",
    engine="SEQ",
    level="model_checking",
    technique="exhaustive enumeration of (parent state, edit script, parent options, damage) histories with a differential oracle: parent-based backup vs forced full backup on the real code",
    design_ref="DESIGN.md §4.1, §5 C11",
    level_text="For three base sources, every edit script of length 1 and 2 over 14 edits (content change with size / mtime only / ctime only / nothing else, touch, rename, file<->dir, file->symlink, add, remove, "
               "insert a name sorting between existing ones, inode change), seven parent option sets (latest, explicit, two parents, ignore-ctime, ignore-inode, skip-if-unchanged, force) and parents with or without a lost data pack, "
               "the real parent-based backup and a forced full backup of the same source are run on clones of the same repository. Whenever the statement's precondition holds the tree ids must be equal, the new snapshot must read back to the source "
               "(through an independent decoder), skip-if-unchanged must write a snapshot iff the tree differs, and the summary's new/changed/unmodified counts must match the edit.",
    level_note="Cases where content changed without size/mtime/(ctime) change are run but not judged (the statement excludes them). Sources are small; mtimes/ctimes/inodes are synthetic (in-memory source seam).",
    shards={"quick": 16, "thorough": 16},
    require_counts=["damaged_parent_cases", "judged_cases", "precondition_false_not_judged", "skipped_snapshots"],
    )

add("C15",
    engine="SEQ",
    level="model_checking",
    technique="explicit-state BFS over sequences of all public mutating operations with a call-recording store",
    design_ref="DESIGN.md §4.1, §5 C15",
    level_text="Breadth-first search (depth 3 quick / 4 thorough) from an append-only and a normal repository over every public mutating operation: backup, forget, prune with 10/25 option vectors (incl. early index deletion), forget+prune at once through `ignore_snaps`, repair index (default/read-all), "
               "repair snapshots (delete/keep), rewrite (forget/keep x snapshot modification/tree rewrite), save snapshots, merge, copy-into, seven config changes, toggling append-only, key add/delete - each also with its dry-run flag "
               "(prune: plan only) - plus the environment step 'lose a data pack'. The store records every backend call: in append-only mode every snapshot, index and pack file present before an operation must be present byte-identically afterwards; "
               "an operation that reports the append-only error must have issued zero mutating calls; every dry run must issue zero mutating calls and leave the store unchanged.",
    level_note="Canonical states drop random ids; key files are outside the statement. Depth-bounded; option vectors as listed in c02.rs.",
    shards={"quick": 16, "thorough": 16},
    require_counts=["refused_append_only", "dry_run_actions", "append_only_actions", "result:Backup/dry:ok", "result:RepairSnapshots/dry:ok"],
    )

add("C05",
    engine="TAMPER",
    level="fault_enumeration",
    technique="exhaustive single-fault enumeration over every stored file of repositories produced by real histories, judged by the real check and restore paths",
    design_ref="DESIGN.md §4.4, §5 C05",
    level_text="Seven repositories built by real histories (fresh; two snapshots with the same time; after forget+prune with marked packs; after forget and a prune keeping partly used packs; duplicate blobs written through a stale handle; one-blob packs; repo version 1). For every stored file except config: remove; "
               "truncate (boundary lengths quick / every length thorough); flip (quick: one bit of every byte, all 8 bits of every nonce, MAC and trailer byte; thorough: every bit); append; replace by each sibling of the same type; "
               "same plaintext under another key; and for index files duplicate/drop a pack entry and drop a blob entry (re-sealed). Each faulted store is judged by the real `check --read-data` - for faults in pack files also through a handle with a local cache filled from the intact repository and --trust-cache, where --read-data still promises that packs are read from the repository; if it is clean in either mode every snapshot must restore to its source "
               "under the index listing in insertion and reversed order (thorough: all rotations x reversal). The unfaulted stores must be clean and restorable.",
    level_note="Files larger than 2 KiB get their structural regions completely and ciphertext on a stride. check sleeps 100 ms per run, so cases run 48 at a time per worker.",
    shards={"quick": 16, "thorough": 16},
    rule="see evidence",
    require_counts=["verdict:detected", "verdict:harmless", "detected:flip/pack/blob-ciphertext", "detected:flip/pack/pack-header", "detected:flip/pack/trailer", "detected:flip/index/ciphertext", "detected:flip/snapshot/ciphertext", "detected:index-drop-blob/index"],
    )

add("C04",
    engine="TAMPER",
    level="fault_enumeration",
    technique="exhaustive single-fault enumeration over every stored file judged by every typed read path, plus explicit-state BFS with raw-byte invariants (nonce freshness, no plaintext) and exhaustive credential histories",
    design_ref="DESIGN.md §4.4, §4.1, §5 C04",
    level_text="(c) Two repositories (multi-blob packs; one-blob packs whose blobs have equal sizes, so that packs share their layout) x every stored file incl. config and key x {remove, truncate, flip, append, replace by each sibling of the same type, "
               "same plaintext under another key, index entry edits}: reading every snapshot and index file by id, every blob through the index and every whole snapshot must fail or return the original content. "
               "(a)+(b) In every state of a BFS (depth 3 quick / 5 thorough) over {backup, prune with fast and re-encoding repack, forget, copy into a repository with another key, compression change} with the real RNG, the nonces of all files, pack headers and blobs "
               "are pairwise distinct and non-zero unless the whole ciphertext is a verbatim copy, and no stored file other than keys contains a file/dir name, label, host, tag, JSON key literal or any 8-byte window of file content. "
               "(d) Every key add/delete/open history up to length 2 (quick) / 3 (thorough): a password opens iff one of the present key files was made with it, the master key always opens, a wrong password or another master key never. "
               "(e) 7 passwords differing only in leading/inner/trailing white space x {password file, password command} x line endings {none, LF, CRLF}: a repository initialised with p given directly opens through every channel configured with p and is refused for every other password.",
    level_note="Semantic security (IND-CPA, unforgeability, RNG quality) is outside any bounded enumeration: only literal substrings and nonce collisions are decided. scrypt runs with its real cost.",
    shards={"quick": 16, "thorough": 16},
    require_counts=["nonces_checked", "plaintext_windows_checked", "tamper_cases", "credential_histories", "held:swap/pack", "held:other-key/snapshot", "held:flip/pack/blob-mac", "held:flip/config/mac"],
    )

add("C18",
    engine="ENUM",
    level="exploration",
    technique="bounded exhaustive enumeration of configuration values (per-field boundaries, full products of interacting groups, init and 2-step change sequences) with a smoke run of every accepted configuration",
    design_ref="DESIGN.md §4.5, §5 C18",
    level_text="Every ConfigOptions field with boundary values (0, 1, interior, u32::MAX, u64::MAX; both ends of the zstd level range +-1; versions 0..3 and u32::MAX) and the full products of the interacting groups "
               "(chunker x chunk size x min x max; pack size x grow factor x limit per blob type; version x compression; min% x max%) are applied to three initial configurations through apply_config on a real repository and through init. "
               "apply/init must return (no panic); a refused change must leave the stored config bytes and the handle's config untouched; an accepted change may alter only the settings it names and never lowers the version. "
               "Every distinct accepted configuration gets a smoke run in a child process (backup of files of length 0,1,63,64,65,5000,70000 and zeros, check --read-data, restore comparison through the API and the independent decoder, prune_plan) "
               "under a watchdog; prune runs with every pair of ten limit values (0%..u64::MAX%, sizes 0/1/u64::MAX, unlimited) and must return Ok or Err.",
    level_note="Panics are judged in the suite's build profile (overflow checks on). Values between the listed boundaries are not enumerated.",
    shards={"quick": 16, "thorough": 16},
    require_counts=["accepted", "refused", "smoke_runs", "prune_limit_ok", "init_cases"],
    )

add("C14",
    engine="ENUM",
    level="exploration",
    technique="bounded exhaustive enumeration of destination pre-states (single and pairwise mutations of the snapshot content, extras) x restore options on a real file system, plus hostile node names",
    design_ref="DESIGN.md §4.5, §5 C14",
    level_text="Three snapshots (multi-blob file, empty file, nested dirs, symlink, hardlink pair, executable; all-zero and holey files, empty dir; dangling absolute symlink, deep path) are restored with the real prepare_restore/restore into tmpfs destinations "
               "built from the snapshot content by every single mutation {absent, same size+mtime other bytes, same size other mtime, truncated, longer, wrong type file/dir/symlink, symlink pointing outside, mode changed} of every path, pairs of mutations, "
               "with and without extra entries, under all 16 combinations of delete x verify-existing x sparse x no-ownership. Afterwards every snapshot path must hold the snapshot's type, bytes, link target, mode and mtime (hardlinks share an inode) in the cases the statement covers, "
               "extras must be gone iff delete was requested and untouched otherwise, and a digest of everything in the sandbox outside the destination must be unchanged. Nine hostile stored node names (.., ../x, a/../../.., absolute, a/b, ., empty, ...) as file and directory must not touch anything outside.",
    level_note="Runs as root on tmpfs: ownership, xattrs and device nodes are not explored.",
    shards={"quick": 16, "thorough": 16},
    require_counts=["held", "hostile_name_cases"],
    )

add("C20",
    bin="mcb",
    pin=False,
    rayon_threads=0,
    engine="SEQ",
    level="model_checking",
    technique="explicit-state BFS over backend operation sequences on real directories against a map reference model, with a crash image at the publish point",
    design_ref="DESIGN.md §4.1, §5 C20",
    level_text="Breadth-first search (depth 3 quick / 4 thorough over config, snapshot and pack files; depth 2 over all five file types) over write/remove with three ids (two sharing a data/xx directory) and contents of 0 B, 4097 B (thorough: 1 B, 3 MiB) "
               "on the real LocalBackend, OpenDAL(fs) and OpenDAL(memory). Every transition replays its history on a fresh backend; afterwards every list, list_with_size, read_full of every id and read_partial for all (offset,length) over {0,1,mid,len-1,len,4095,4096}^2 in range "
               "must equal the map model, with and without stray entries planted beforehand (non-hex names, 63/65-char hex, upper-case hex, `<id>-tmp-` files, a directory named like an id, foreign directories). "
               "At LocalBackend's pre-publish hook the directory is copied; a backend opened on the copy must show exactly the pre-write map (no partial file listed, target unchanged or absent).",
    level_note="Removing an absent file is not judged (the statement does not specify it). A crash is modelled at the one point between writing the temporary file and the rename; torn writes inside the temporary file are invisible to listings by construction. OpenDAL retries are switched off in the harness.",
    shards={"quick": 16, "thorough": 16},
    require_counts=["crash_images", "executions:Local+strays", "executions:OpendalMemory", "single_stray_cases"],
    )

add("C16",
    engine="CRASH",
    level="fault_enumeration",
    technique="exhaustive crash-point enumeration over the combined hot+cold operation sequence of a real history, differential run against a single store, cold store rejecting un-warmed reads, and every subset of hot files removed before repair",
    design_ref="DESIGN.md §4.3, §5 C16",
    level_text="A 12-step history (init, three backups, key add/delete, forget, prune mark / delete+repack-all / default options, config change, copy-into) runs on a hot/cold pair of recording stores and on a single store. "
               "After every mutating backend call the (cold,hot) pair is checked: every key, snapshot, index and tree-pack file the cold store lists is in the hot store byte-identically and the hot store holds no data pack; after each step the cold store "
               "equals the single store canonically (pack layout options given explicitly) and all snapshots read back to the source on both. With a cold store that fails every pack read not preceded by warm_up of that id in the same command, "
               "restore, prune with repacking and repair-index --read-all must succeed with zero un-warmed reads. Every non-empty subset of the first 9 (quick) / 12 (thorough) hot files (file types interleaved, so that config, snapshot, index and pack files are all among them) is removed - once as it is and once with a file that only the hot store holds (a second copy of an index file: the repair then has work in both directions for one file type) - and repair_hotcold_except_packs (+ open_only_cold/init_hot when the hot config is gone) + repair_hotcold_packs must restore the invariant and all snapshots.",
    level_note="Single linearisation per command (the completion-order dimension is C03/C13's); evaluations = crash states + removed subsets.",
    shards={"quick": 16, "thorough": 16},
    rule="crash states of the (cold,hot) pair after every mutating call of a 12-step history + every non-empty subset of hot files removed before repair; non-trivial = distinct canonical (cold,hot) states and distinct repaired subsets",
    require_counts=["cold_restores", "cold_partial_restores", "cold_prune_repacks", "cold_repair_index", "cold_repair_index_dry", "crash_states", "hot_subsets_removed", "repairs_with_a_hot_only_file"],
    )

add("C19",
    engine="SEQ",
    level="model_checking",
    technique="explicit-state BFS over alternating cached/uncached handle histories with the cache directory as part of the state, differential oracle against an uncached twin",
    design_ref="DESIGN.md §4.1, §5 C19",
    level_text="Breadth-first search (depth 3 quick / 4 thorough) from two initial states over {backup, get_all_snapshots, get_snapshots([full id]), forget, prune, check with and without trust-cache, read all snapshots} through a handle with a real cache directory on tmpfs - "
               "each run in parallel through an uncached handle on a clone of the same repository: result (canonicalised Ok payload or Err) and resulting repository must be equal - interleaved with {backup, forget, prune} through an uncached handle (another process) "
               "and the cache faults truncate a cached file, append bytes to it, replace it by other bytes of the same size, replace a cached tree pack by a longer foreign file, plant foreign files under data-pack names, make an entry unreadable (a directory under its name), plant junk names. After every operation that lists a file type, the cache must hold no snapshot/index file the repository lacks or stores with another size.",
    level_note="The cache directory content is part of the canonical state (described by decoded file content, not by ids).",
    shards={"quick": 16, "thorough": 16},
    require_counts=["differential_comparisons", "action:TruncateCached", "action:UnreadableCached", "action:uncached:Forget"],
    )

add("C12",
    engine="SEQ",
    level="model_checking",
    technique="exhaustive enumeration of small repository pairs, tree pairs/triples, glob sets and single losses, each judged on the real commands against reference results (restore equality, reference merge, reference exclude, repair specification)",
    design_ref="DESIGN.md §4.1, §5 C12",
    level_text="copy: two source repositories (one holding tree/data id collisions) x four destinations (empty; already holding some blobs; other key + repo v1 + one-blob packs; other key + compression 19 + default chunker) x every non-empty subset of three snapshots sharing blobs: "
               "each copied snapshot must restore identically, the destination must pass check --read-data and hold no blob twice. merge: every pair (and triples over a subset) of trees with entries a,b of kind {absent, file v1, file v2, symlink, dir with sub-entries} under three orderings "
               "(last modified, first modified, always equal): the merged tree must be a valid merge by a recursive reference (union of names, winner among the maximal candidates, directories merged from all contending directories). rewrite: five trees (one with twin directories, one with names differing in letter case only) x every set of <=2 of six exclude globs x the four ways of passing them (globs, iglobs, a glob file, an iglob file) x forget: "
               "result equals the source minus the excluded paths with identical metadata, originals removed iff forget. repair: an undamaged repository is left untouched with zero writes; for every single pack removed (+repair-index) and every single blob entry dropped from the index, x delete: "
               "every new snapshot is completely readable, every entry not carrying the suffix has its original content, no path vanishes unless a tree was lost, originals are removed only with delete.",
    level_note="states = distinct (scenario, result) pairs; glob semantics (case-sensitive and -insensitive) are transcribed by hand for the six exclude patterns used.",
    shards={"quick": 16, "thorough": 16},
    require_counts=["copy_cases", "merge_cases", "rewrite_cases", "rewrite_via:glob_files", "rewrite_via:iglobs", "repair_cases", "repaired_marked_entries", "copy_into_nonempty_wrote_packs"],
    )

add("C01",
    engine="ENUM",
    level="exploration",
    technique="bounded exhaustive enumeration of source tree shapes, names, configuration x content grids and metadata through an in-memory source seam, read back through every read path",
    design_ref="DESIGN.md §4.5, §5 C01",
    level_text="Slices, each enumerated completely: S1 every tree with <=4 (quick) / <=5 (thorough) nodes over {dir, file, symlink} and names a,b,c; S2 one file under every legal single-byte name (253), every pair over a hostile set "
               "(backslash, quote, newline, 0x80, 0xff, e-acute, space, dot) and long/unicode/escape-like/invalid-UTF-8 names; S3 the configuration grid {repo v1, v2} x compression {unset, 0, -7, (1, 22)} x seven chunkers (rabin default, 4096/4096/16384, 64/64/256; fixed 1, 2, 4096, 8000) x three pack sizes, "
               "each with files whose lengths sit on the chunker's min/avg/max boundaries under four fills and a file byte-identical to a sibling directory's tree; S4 symlink targets (relative, absolute, dangling, non-UTF-8, 1000 bytes), hardlink pair and triple, nesting depth 1..40, 100 files in one directory, "
               "modes incl. setuid/setgid/sticky, mtimes 0, 1 ns, 2200, negative. For every case the real backup is read back by ls+dump (every file dumped into a Vec and into a writer that accepts 7 bytes per call; both must receive the same bytes), by an independent decoder, by read_file_at over a grid of offsets/lengths around blob boundaries, check --read-data must be clean, "
               "and the snapshot is restored into an empty tmpfs directory and compared by lstat (type, bytes, link target, mode, mtime ns, shared inodes).",
    level_note="Metadata comes from the in-memory source seam (the file-system walker of the source side is not exercised); file sizes are bounded by 3*max+17 bytes of the tiny chunkers / 27 KiB.",
    shards={"quick": 16, "thorough": 16},
    require_counts=["cases:S1", "cases:S2", "cases:S3", "cases:S4"],
    )
